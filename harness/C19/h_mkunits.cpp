// C19-H2: the four scanning units of MakefileDepsParser, each from an arbitrary
// cursor in an exact-size buffer.  VF_UNIT selects the unit.
#include "vf.h"
#include VF_REPO_SRC(lib/Core/MakefileDepsParser.cpp)
#ifndef VF_N
#define VF_N 3
#endif
#ifndef VF_UNIT
#define VF_UNIT 0
#endif
extern "C" void harness_mkunit(void) {
  const unsigned n = VF_N;
  char* buf = vf_buffer(n);
  uint32_t off = nondet_u32(); VF_ASSUME(off <= n);
  const char* cur = buf + off; const char* end = buf + n;
#if VF_UNIT == 0
  llvm::SmallVector<char, 32>& w = *new llvm::SmallVector<char, 32>;
  lexWord(cur, end, w);
  VF_ASSERT(w.size() <= 2 * (n - off), "unescaped word is bounded by the consumed input");
  vf_observe(w.size());
#elif VF_UNIT == 1
  skipWhitespaceAndComments(cur, end);
#elif VF_UNIT == 2
  skipNonNewlineWhitespace(cur, end);
#else
  skipToEndOfLine(cur, end);
#endif
  vf_observe(cur - buf);
  VF_ASSERT(cur >= buf + off && cur <= end, "cursor stays within [start, end]");
  VF_WITNESS();
}
