// C19-H2b: MakefileDepsParser::parse() on every buffer of VF_N bytes.
#include "vf.h"
#include VF_REPO_SRC(lib/Core/MakefileDepsParser.cpp)
#ifndef VF_N
#define VF_N 2
#endif
namespace {
static const char* g_buf; static unsigned g_n; static int g_open = 0;
static void inbuf(StringRef s) { VF_ASSERT(s.data() >= g_buf && s.data() + s.size() <= g_buf + g_n, "reported slice lies within the input"); }
struct Acts : public MakefileDepsParser::ParseActions {
  void error(StringRef message, uint64_t position) override { VF_ASSERT(position <= g_n, "error position within the input"); vf_observe(1000 + position); }
  void actOnRuleStart(StringRef name, const StringRef unescapedWord) override { inbuf(name); VF_ASSERT(g_open == 0, "rules do not nest"); g_open = 1; vf_observe(2000 + name.size()); }
  void actOnRuleDependency(StringRef dependency, const StringRef unescapedWord) override { inbuf(dependency); VF_ASSERT(g_open == 1, "dependency inside a rule"); vf_observe(3000 + dependency.size()); }
  void actOnRuleEnd() override { VF_ASSERT(g_open == 1, "rule end matches a start"); g_open = 0; }
};
}
extern "C" void harness_mkparse(void) {
  const unsigned n = VF_N;
  char* buf = vf_buffer(n); g_buf = buf; g_n = n;
  Acts& acts = *new Acts;
  bool ignoreSubsequent = nondet_bool();
  MakefileDepsParser parser(StringRef(buf, n), acts, ignoreSubsequent);
  parser.parse();
  VF_ASSERT(g_open == 0, "every rule start has an end");
  VF_WITNESS();
}
