// C19-H1 / C17-N1,N2: one Lexer::lex() step from an arbitrary cursor state in an
// exact-size buffer of VF_N arbitrary bytes (no terminator).
#include "llbuild/Ninja/Lexer.h"
#include "vf.h"
using namespace llbuild::ninja;
#ifndef VF_N
#define VF_N 4
#endif
// mirrors the private layout of Lexer (checked by the static_assert below)
struct LexerPeek { llvm::StringRef buffer; const char* bufferPos; unsigned lineNumber; unsigned columnNumber; Lexer::LexingMode mode; };
static_assert(sizeof(LexerPeek) == sizeof(Lexer), "Lexer layout changed: update the harness");
static bool blank(unsigned char c) { return c == ' ' || c == '\t' || c == '\v' || c == '\f'; }
extern "C" void harness_lexer(void) {
  const unsigned n = VF_N;
  char* buf = vf_buffer(n);
  Lexer& lexer = *new Lexer(llvm::StringRef(buf, n));
  LexerPeek* st = (LexerPeek*)&lexer;
  uint32_t off = nondet_u32();
  VF_ASSUME(off <= n);
#ifdef VF_IDENT
  // keyword obligation: the buffer is one identifier of lower-case letters, lexed from offset 0
  VF_ASSUME(off == 0);
  for (unsigned i = 0; i < n; i++) VF_ASSUME(buf[i] >= 'a' && buf[i] <= 'z');
#endif
  st->bufferPos = buf + off;
  // the column is 0 exactly at the start of a line (representation invariant of the lexer)
  bool lineStart = (off == 0) || buf[off - 1] == '\n' || buf[off - 1] == '\r';
  uint32_t col = nondet_u32();
  VF_ASSUME(lineStart ? col == 0 : col != 0);
  st->columnNumber = col;
  uint8_t mode = nondet_u8();
  VF_ASSUME(mode < 4);
  lexer.setMode((Lexer::LexingMode)mode);
  const char* pos = buf + off;
  Token tok;
  lexer.lex(tok);
  vf_observe((uint64_t)tok.tokenKind); vf_observe(tok.start - buf); vf_observe(tok.length);
  VF_ASSERT(tok.start >= pos, "token starts at or after the previous token end (no overlap)");
  VF_ASSERT(tok.start + tok.length <= buf + n, "token lies within the buffer");
  VF_ASSERT(st->bufferPos == tok.start + tok.length, "cursor is at the token end (next token starts where this one ends)");
  // the skipped gap holds only blanks and $-newline escapes (tokens tile the input)
  for (const char* p = pos; p < tok.start; p++) {
    unsigned char c = (unsigned char)*p;
    VF_ASSERT(blank(c) || c == '$' || c == '\n' || c == '\r', "only blanks and $-newline escapes are skipped between tokens");
  }
  if (tok.tokenKind == Token::Kind::EndOfFile) {
    VF_ASSERT(tok.start == buf + n, "end-of-file is reported only at the true end of the buffer");
  } else {
    VF_ASSERT(tok.length > 0, "every token other than end-of-file makes progress");
  }
  // in path mode a string token extends to the next unescaped blank, newline, ':' or '|' (or the end);
  // '$' escapes the following byte, and a "$<newline>" continuation also swallows the blanks that follow it
  if (mode == (uint8_t)Lexer::LexingMode::PathString && tok.tokenKind == Token::Kind::String) {
    const char* p = tok.start; const char* e = buf + n;
    while (p < e) {
      unsigned char c = (unsigned char)*p;
      if (c == '$') {
        p++; if (p == e) break;
        bool nl = *p == '\n' || *p == '\r';
        if (nl && p + 1 < e && p[1] == ('\n' + '\r' - *p)) p++;      // CRLF and LFCR each count as one newline (Lexer::getNextChar)
        p++;
        if (nl) while (p < e && blank((unsigned char)*p)) p++;
        continue;
      }
      if (blank(c) || c == '\n' || c == '\r' || c == ':' || c == '|') break;
      p++;
    }
    VF_ASSERT(tok.start + tok.length == p, "a path token ends exactly at the first unescaped separator (line continuations and the blanks after them belong to it)");
  }
  // in variable mode a string token (a binding's value) extends to the first unescaped end of line (or the end of input); '$' escapes the
  // following byte - a newline too (CRLF and LFCR each count as one) - so "$$" before the end of line is a literal dollar, not a continuation
  if (mode == (uint8_t)Lexer::LexingMode::VariableString && tok.tokenKind == Token::Kind::String) {
    const char* p = tok.start; const char* e = buf + n;
    while (p < e) {
      unsigned char c = (unsigned char)*p;
      if (c == '$') {
        p++; if (p == e) break;
        bool nl = *p == '\n' || *p == '\r';
        if (nl && p + 1 < e && p[1] == ('\n' + '\r' - *p)) p++;
        p++;
        continue;
      }
      if (c == '\n' || c == '\r') break;
      p++;
    }
    VF_ASSERT(tok.start + tok.length == p, "a binding's value ends exactly at the first unescaped end of line");
  }
  // bytes 0x80-0xFF are ordinary characters: never a separator, never end of input
  if (tok.start < buf + n && (unsigned char)*tok.start >= 0x80) {
    VF_ASSERT(tok.tokenKind == Token::Kind::String || tok.tokenKind == Token::Kind::Unknown, "a high byte starts a string or an unknown token");
  }
  // keywords are recognised only as whole words
  if (mode != (uint8_t)Lexer::LexingMode::VariableString && mode != (uint8_t)Lexer::LexingMode::PathString) {
    struct KW { const char* s; unsigned l; Token::Kind k; };
    const KW kws[] = { {"rule", 4, Token::Kind::KWRule}, {"pool", 4, Token::Kind::KWPool}, {"build", 5, Token::Kind::KWBuild},
                       {"default", 7, Token::Kind::KWDefault}, {"include", 7, Token::Kind::KWInclude}, {"subninja", 8, Token::Kind::KWSubninja} };
    for (unsigned k = 0; k < 6; k++) {
      bool same = tok.length == kws[k].l;
      if (same) for (unsigned i = 0; i < kws[k].l; i++) if (tok.start[i] != kws[k].s[i]) same = false;
      bool isKw = tok.tokenKind == kws[k].k;
      if (mode == (uint8_t)Lexer::LexingMode::IdentifierSpecific) VF_ASSERT(!isKw, "identifier-specific mode never yields keywords");
      else if (isKw) VF_ASSERT(same, "a keyword token spells exactly that keyword");
      else if (same) VF_ASSERT(false, "an identifier spelling a keyword is that keyword");
    }
  }
  VF_WITNESS();
}
