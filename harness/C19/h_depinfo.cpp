// C19-H3 / C11-D2: DependencyInfoParser::parse() on every buffer of VF_N bytes.
#include "vf.h"
#include VF_REPO_SRC(lib/Core/DependencyInfoParser.cpp)
#ifndef VF_N
#define VF_N 3
#endif
namespace {
static const char* g_buf; static unsigned g_n; static unsigned g_records = 0; static unsigned g_errors = 0;
static void slice(llvm::StringRef s) {
  VF_ASSERT(s.data() >= g_buf && s.data() + s.size() < g_buf + g_n, "operand is a slice of the input followed by its terminator");
  VF_ASSERT(s.size() > 0 && s.data()[s.size()] == 0, "operand is non-empty and NUL terminated in place");
  for (size_t i = 0; i < s.size(); i++) VF_ASSERT(s.data()[i] != 0, "operand holds no NUL");
  VF_ASSERT(s.data() > g_buf, "operand follows an opcode byte");
  g_records++;
}
struct Acts : public DependencyInfoParser::ParseActions {
  void error(const char* message, uint64_t position) override { VF_ASSERT(position <= g_n, "error position within the input"); g_errors++; vf_observe(1000 + position); }
  void actOnVersion(llvm::StringRef s) override { slice(s); VF_ASSERT(s.data() == g_buf + 1 && g_buf[0] == 0x00, "version record is first"); vf_observe(2000 + s.size()); }
  void actOnInput(llvm::StringRef s) override { slice(s); VF_ASSERT((unsigned char)s.data()[-1] == 0x10, "input opcode"); vf_observe(3000 + s.size()); }
  void actOnMissing(llvm::StringRef s) override { slice(s); VF_ASSERT((unsigned char)s.data()[-1] == 0x11, "missing opcode"); vf_observe(4000 + s.size()); }
  void actOnOutput(llvm::StringRef s) override { slice(s); VF_ASSERT((unsigned char)s.data()[-1] == 0x40, "output opcode"); vf_observe(5000 + s.size()); }
};
}
extern "C" void harness_depinfo(void) {
  const unsigned n = VF_N;
  char* buf = vf_buffer(n); g_buf = buf; g_n = n;
  Acts& acts = *new Acts;
  DependencyInfoParser parser(llvm::StringRef(buf, n), acts);
  parser.parse();
  // a well-framed file (records of opcode, non-empty operand, NUL; version first) is delivered completely
  VF_WITNESS();
}
