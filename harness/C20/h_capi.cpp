// C20: every forwarder of the core C API against recording stubs of the C++ engine interface.
// VF_CASE selects the entry point; keys/values have VF_N arbitrary bytes (NUL included).
#include "vf.h"
#include VF_REPO_SRC(products/libllbuild/Core-C-API.cpp)
#ifndef VF_N
#define VF_N 2
#endif
#ifndef VF_CASE
#define VF_CASE 0
#endif
// ---- recording stubs for the engine side -------------------------------------------------
static int g_calls = 0; static int g_which = -1; static uint8_t g_key[VF_N + 1]; static uint64_t g_len = ~0ull; static uint64_t g_id = 0; static bool g_force = false;
static void* g_tiImpl = 0; static void* g_tiCtx = 0;
static void recKey(const KeyType* k) { g_len = k->size(); for (unsigned i = 0; i < VF_N; i++) if (i < k->size()) g_key[i] = (uint8_t)k->data()[i]; }
static void recTI(TaskInterface* ti) { g_tiImpl = ti->impl; g_tiCtx = ti->ctx; }
extern "C" void vf_request(TaskInterface* ti, const KeyType* k, uintptr_t id) { g_calls++; g_which = 0; recKey(k); g_id = id; recTI(ti); }
extern "C" void vf_mustFollow(TaskInterface* ti, const KeyType* k) { g_calls++; g_which = 1; recKey(k); recTI(ti); }
extern "C" void vf_discovered(TaskInterface* ti, const KeyType* k) { g_calls++; g_which = 2; recKey(k); recTI(ti); }
extern "C" void vf_complete(TaskInterface* ti, ValueType* v, bool force) {
  g_calls++; g_which = 3; g_len = v->size(); for (unsigned i = 0; i < VF_N; i++) if (i < v->size()) g_key[i] = (*v)[i]; g_force = force; recTI(ti);
}
static ValueType* g_result; static BuildEngine* g_engineSeen;
extern "C" const ValueType* vf_build(BuildEngine* e, const KeyType* k) { g_calls++; g_which = 4; recKey(k); g_engineSeen = e; return g_result; }
static BuildDB* g_fakeDB; static bool g_factoryNull; static uint32_t g_schema; static bool g_recreate; static bool g_attachResult; static BuildDB* g_attached = 0; static int g_attachCalls = 0;
extern "C" void vf_createDB(std::unique_ptr<BuildDB>* out, const char* p, size_t n, uint32_t ver, bool recreate, std::string* err) {
  g_calls++; g_len = n; for (unsigned i = 0; i < VF_N; i++) if (i < n) g_key[i] = (uint8_t)p[i]; g_schema = ver; g_recreate = recreate;
  new (out) std::unique_ptr<BuildDB>(g_factoryNull ? nullptr : g_fakeDB);
}
extern "C" bool vf_attachDB(BuildEngine* e, std::unique_ptr<BuildDB>* db, std::string* err) { g_attachCalls++; g_attached = db->release(); g_engineSeen = e; return g_attachResult; }
static CAPIBuildEngineDelegate* g_delegate;
extern "C" BuildEngineDelegate* vf_tiDelegate(TaskInterface* ti) { return g_delegate; }
// ---- C-side callbacks (client) ------------------------------------------------------------
static int c_calls = 0; static void* c_ctx = 0; static void* c_ectx = 0; static uint64_t c_id = 0; static uint64_t c_len = ~0ull; static const uint8_t* c_ptr = 0;
static llb_task_interface_t c_ti; static int c_which = -1; static uint32_t c_kind = 99; static uint64_t c_count = 0; static const llb_data_t* c_keys = 0;
static void cb_start(void* ctx, void* ectx, llb_task_interface_t ti) { c_calls++; c_which = 0; c_ctx = ctx; c_ectx = ectx; c_ti = ti; }
static void cb_provide(void* ctx, void* ectx, llb_task_interface_t ti, uintptr_t id, const llb_data_t* v) { c_calls++; c_which = 1; c_ctx = ctx; c_ectx = ectx; c_ti = ti; c_id = id; c_len = v->length; c_ptr = v->data; }
static void cb_inputs(void* ctx, void* ectx, llb_task_interface_t ti) { c_calls++; c_which = 2; c_ctx = ctx; c_ectx = ectx; c_ti = ti; }
static bool c_validAnswer; static const llb_rule_t* c_rule;
static bool cb_valid(void* ctx, void* ectx, const llb_rule_t* rule, const llb_data_t* v) { c_calls++; c_which = 3; c_ctx = ctx; c_ectx = ectx; c_rule = rule; c_len = v->length; c_ptr = v->data; return c_validAnswer; }
static void cb_status(void* ctx, void* ectx, llb_rule_status_kind_t k) { c_calls++; c_which = 4; c_ctx = ctx; c_ectx = ectx; c_kind = (uint32_t)k; }
static llb_task_t* c_taskAnswer;
static llb_task_t* cb_create(void* ctx, void* ectx) { c_calls++; c_which = 5; c_ctx = ctx; c_ectx = ectx; return c_taskAnswer; }
static char c_ruleCtx, c_engCtx, c_taskCtx;
static void cb_lookup(void* ctx, const llb_data_t* key, llb_rule_t* out) {
  c_calls++; c_which = 6; c_ctx = ctx; c_len = key->length; c_ptr = key->data;
  out->context = &c_ruleCtx; out->create_task = cb_create; out->is_result_valid = cb_valid; out->update_status = cb_status;
}
static llb_data_t c_keyCopy[2];
static void cb_cycle(void* ctx, const llb_data_t* keys, uint64_t n) { c_calls++; c_which = 7; c_ctx = ctx; c_count = n; for (unsigned j = 0; j < 2 && j < n; j++) c_keyCopy[j] = keys[j]; }   // the array is only valid during the call
static void cb_error(void* ctx, const char* m) {}
extern "C" void harness_capi(void) {
  const unsigned n = VF_N;
  uint8_t* bytes = (uint8_t*)vf_buffer(n);
  llb_data_t data{ n, bytes };
  char implObj, ctxObj;
  llb_task_interface_t ti{ &implObj, &ctxObj };
  uintptr_t id = nondet_u64();
#if VF_CASE <= 3
  bool force = nondet_bool();
  if (VF_CASE == 0) llb_buildengine_task_needs_input(ti, &data, id);
  if (VF_CASE == 1) llb_buildengine_task_must_follow(ti, &data);
  if (VF_CASE == 2) llb_buildengine_task_discovered_dependency(ti, &data);
  if (VF_CASE == 3) llb_buildengine_task_is_complete(ti, &data, force);
  VF_ASSERT(g_calls == 1 && g_which == VF_CASE, "exactly one call of the matching engine entry point");
  VF_ASSERT(g_tiImpl == &implObj && g_tiCtx == &ctxObj, "the task interface handle is passed through unchanged");
  VF_ASSERT(g_len == n, "the key/value arrives with its full length (NUL bytes included)");
  for (unsigned i = 0; i < n; i++) VF_ASSERT(g_key[i] == bytes[i], "the key/value bytes arrive unchanged");
  if (VF_CASE == 0) VF_ASSERT(g_id == id, "the input id arrives unchanged");
  if (VF_CASE == 3) VF_ASSERT(g_force == force, "force_change arrives at complete()");
#elif VF_CASE == 4
  // llb_buildengine_build
  CAPIBuildEngine& ce = *new CAPIBuildEngine;
  BuildEngine* eng = (BuildEngine*)malloc(16); *(BuildEngine**)&ce.engine = eng;
  g_result = new ValueType; uint8_t r0 = nondet_u8(); g_result->push_back(r0);
  llb_data_t out{ 0, 0 };
  llb_buildengine_build((llb_buildengine_t*)&ce, &data, &out);
  VF_ASSERT(g_calls == 1 && g_engineSeen == eng && g_len == n, "build() is called once on this engine with the full key");
  for (unsigned i = 0; i < n; i++) VF_ASSERT(g_key[i] == bytes[i], "the key bytes arrive unchanged");
  VF_ASSERT(out.length == 1 && out.data == g_result->data() && out.data[0] == r0, "the result handed back is the engine's value");
#elif VF_CASE == 5
  // llb_buildengine_attach_db
  CAPIBuildEngine& ce = *new CAPIBuildEngine;
  BuildEngine* eng = (BuildEngine*)malloc(16); *(BuildEngine**)&ce.engine = eng;
  g_fakeDB = (BuildDB*)malloc(16); g_factoryNull = nondet_bool(); g_attachResult = nondet_bool();
  uint32_t schema = nondet_u32(); char* err = 0;
  bool ok = llb_buildengine_attach_db((llb_buildengine_t*)&ce, &data, schema, &err);
  VF_ASSERT(g_calls == 1 && g_len == n && g_schema == schema, "the factory sees the full path and the schema version");
  for (unsigned i = 0; i < n; i++) VF_ASSERT(g_key[i] == bytes[i], "the path bytes arrive unchanged");
  if (g_factoryNull) VF_ASSERT(!ok && g_attachCalls == 0 && err != 0, "no database: failure with an error string, nothing attached");
  else VF_ASSERT(g_attachCalls == 1 && g_attached == g_fakeDB && g_engineSeen == eng && ok == g_attachResult, "the created database is attached to this engine and the engine's answer returned");
#elif VF_CASE == 6
  // task adaptor: every Task callback reaches the C delegate with its arguments
  llb_buildengine_delegate_t ed{}; ed.context = &c_engCtx; ed.lookup_rule = cb_lookup; ed.cycle_detected = cb_cycle; ed.error = cb_error;
  g_delegate = new CAPIBuildEngineDelegate(ed);
  llb_task_delegate_t td{}; td.context = &c_taskCtx; td.start = cb_start; td.provide_value = cb_provide; td.inputs_available = cb_inputs;
  Task* t = (Task*)llb_task_create(td);
  TaskInterface cti(&implObj, &ctxObj);
  uint8_t sel = nondet_u8(); VF_ASSUME(sel < 3);
  ValueType& val = *new ValueType; val.reserve(VF_N + 1); for (unsigned i = 0; i < n; i++) val.push_back(bytes[i]);
  KeyType& key = *new KeyType("k");
  if (sel == 0) t->start(cti);
  if (sel == 1) t->provideValue(cti, id, key, val);
  if (sel == 2) t->inputsAvailable(cti);
  VF_ASSERT(c_calls == 1 && c_which == sel, "exactly one call of the matching C callback");
  VF_ASSERT(c_ctx == &c_taskCtx && c_ectx == &c_engCtx, "task context and engine context are the registered ones");
  VF_ASSERT(c_ti.impl == &implObj && c_ti.ctx == &ctxObj, "the task interface handle is passed through unchanged");
  if (sel == 1) {
    VF_ASSERT(c_id == id && c_len == n, "input id and value length arrive unchanged");
    for (unsigned i = 0; i < n; i++) VF_ASSERT(c_ptr[i] == bytes[i], "value bytes arrive unchanged");
  }
#elif VF_CASE == 7
  // rule adaptor: lookup_rule, is_result_valid, update_status, create_task; cycle_detected
  llb_buildengine_delegate_t ed{}; ed.context = &c_engCtx; ed.lookup_rule = cb_lookup; ed.cycle_detected = cb_cycle; ed.error = cb_error;
  CAPIBuildEngineDelegate* d = new CAPIBuildEngineDelegate(ed);
  KeyType& key = *new KeyType((const char*)bytes, n);
  Rule* rule = d->lookupRule(key).release();
  VF_ASSERT(c_calls == 1 && c_which == 6 && c_ctx == &c_engCtx && c_len == n, "lookup_rule is asked once for the full key");
  for (unsigned i = 0; i < n; i++) VF_ASSERT(c_ptr[i] == bytes[i], "key bytes arrive unchanged");
  VF_ASSERT(rule->key.size() == n, "the rule carries the key");
  BuildEngine* eng = (BuildEngine*)malloc(16);
  uint8_t sel = nondet_u8(); VF_ASSUME(sel < 4);
  c_calls = 0;
  if (sel == 0) {
    ValueType& val = *new ValueType; val.reserve(VF_N + 1); for (unsigned i = 0; i < n; i++) val.push_back(bytes[i]);
    c_validAnswer = nondet_bool();
    bool r = rule->isResultValid(*eng, val);
    VF_ASSERT(c_calls == 1 && c_which == 3 && r == c_validAnswer && c_ctx == &c_ruleCtx && c_ectx == &c_engCtx && c_len == n, "is_result_valid sees the stored value and its answer is returned");
    for (unsigned i = 0; i < n; i++) VF_ASSERT(c_ptr[i] == bytes[i], "value bytes arrive unchanged");
    // a later build asks again about the same rule object and the same value: the client is asked again and ITS answer (which may have
    // changed: is_result_valid exists to look at state outside the engine) is returned - the adaptor keeps no opinion of its own
    c_calls = 0; c_which = -1; c_validAnswer = nondet_bool();
    bool r2 = rule->isResultValid(*eng, val);
    VF_ASSERT(c_calls == 1 && c_which == 3 && r2 == c_validAnswer && c_len == n, "is_result_valid is forwarded on every call, also for a value the client accepted before");
  } else if (sel == 1) {
    uint8_t k = nondet_u8(); VF_ASSUME(k < 3);
    rule->updateStatus(*eng, (Rule::StatusKind)k);
    VF_ASSERT(c_calls == 1 && c_which == 4 && c_kind == k && c_ctx == &c_ruleCtx && c_ectx == &c_engCtx, "update_status receives the same status kind");
  } else if (sel == 2) {
    c_taskAnswer = (llb_task_t*)malloc(8);
    Task* t = rule->createTask(*eng);
    VF_ASSERT(c_calls == 1 && c_which == 5 && (void*)t == (void*)c_taskAnswer && c_ctx == &c_ruleCtx && c_ectx == &c_engCtx, "create_task result is the task the client returned");
  } else {
    std::vector<Rule*>& items = *new std::vector<Rule*>; items.reserve(2); items.push_back(rule); items.push_back(rule);
    d->cycleDetected(items);
    VF_ASSERT(c_calls == 1 && c_which == 7 && c_count == 2 && c_ctx == &c_engCtx, "cycle_detected receives every key of the cycle");
    for (unsigned j = 0; j < 2; j++) { VF_ASSERT(c_keyCopy[j].length == n, "cycle key length"); for (unsigned i = 0; i < n; i++) VF_ASSERT(c_keyCopy[j].data[i] == bytes[i], "cycle key bytes"); }
  }
#endif
  vf_observe(g_calls + c_calls);
  VF_WITNESS();
}
