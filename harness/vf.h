// Harness API shared by every obligation.  The same header is used for the
// CBMC encoding (nondet_* are free symbolic values) and for the native replay
// build (engine/replay_rt.c supplies nondet_* from a recorded stream).
#pragma once
#include <stdint.h>
#include <stdlib.h>
extern "C" {
void __CPROVER_assume(bool);
void __CPROVER_assert(bool, const char*);
uint8_t nondet_u8(void);
uint32_t nondet_u32(void);
uint64_t nondet_u64(void);
bool nondet_bool(void);
// value observed by the translator-validation run (generated C vs native IR)
void vf_observe(uint64_t);
}
// targets of the vtable scrub done by engine/prep_ir.py
extern "C" __attribute__((used, noinline)) void vf_virtual_stub(void*) { __CPROVER_assert(false, "virtual destructor or out-of-scope virtual function invoked"); __CPROVER_assume(false); }
extern "C" __attribute__((used, noinline)) void vf_virtual_noop(void*) {}
#define VF_ASSUME(x) __CPROVER_assume(x)
// nomerge: the optimiser must not sink two assertion calls into one with a phi of the messages
#define VF_ASSERT(x, msg) do { [[clang::nomerge]] __CPROVER_assert((x), msg); } while (0)
// Reachability witness: this assertion is EXPECTED to fail.  A query whose
// witness is not violated is vacuous and is reported as a broken check.
#define VF_WITNESS() do { [[clang::nomerge]] __CPROVER_assert(false, "VF-WITNESS end of harness reachable"); } while (0)
// additional reachability witnesses for secondary paths (also expected to fail)
#define VF_WITNESS_ALSO(what) do { [[clang::nomerge]] __CPROVER_assert(false, "VF-WITNESS " what); } while (0)
// Known-finding exclusion: the driver passes -DVF_EXCLUDE_<tag>=1 for the
// second, narrowed query once a listed finding has been recognised.
#define VF_STOP() do { __CPROVER_assume(false); } while (0)
// exact-size heap buffer with arbitrary contents (sizes are always concrete)
static inline char* vf_buffer(unsigned n) {
  char* b = (char*)malloc(n);
  __CPROVER_assume(b != 0);
  for (unsigned i = 0; i < n; i++) b[i] = (char)nondet_u8();
  return b;
}
// #include VF_REPO_SRC(lib/Core/X.cpp): pulls a repository translation unit into
// the harness so that static functions and anonymous-namespace classes are nameable.
#ifndef VF_REPO
#define VF_REPO /repo
#endif
#define VF_STR2(x) #x
#define VF_STR(x) VF_STR2(x)
#define VF_REPO_SRC(rel) VF_STR(VF_REPO/rel)
