// ExternalCommand kernels (lib/BuildSystem/ExternalCommand.cpp), used by C08 (V2,V3), C09 (S2), C10 (F1,F2,F4).
// VF_CASE: 0 isResultValid, 1 getResultForOutput, 2 provideValue sequence, 3 getSignature over an ideal hash.
#include "vf.h"
#include "llbuild/BuildSystem/ExternalCommand.h"
#include "llbuild/BuildSystem/BuildNode.h"
#include "llbuild/BuildSystem/BuildValue.h"
#include "llbuild/BuildSystem/BuildSystem.h"
#include "llbuild/Basic/FileSystem.h"
#include "llvm/Support/MemoryBuffer.h"
using namespace llbuild; using namespace llbuild::basic; using namespace llbuild::buildsystem;
#ifndef VF_CASE
#define VF_CASE 0
#endif
#ifndef VF_PK
#define VF_PK 0
#endif
#ifndef VF_K
#define VF_K 2
#endif
#include "llbuild/BuildSystem/BuildFile.h"
#include "llbuild/BuildSystem/BuildDescription.h"
#include "llbuild/BuildSystem/Tool.h"
#include "llbuild/Basic/ExecutionQueue.h"
static int g_started = 0, g_finished = 0, g_finishedStatus = -1;
struct HDel : public BuildSystemDelegate {
  HDel() : BuildSystemDelegate("h", 0) {}
  void setFileContentsBeingParsed(StringRef) override {}
  void error(StringRef, const Token&, const Twine&) override {}
  std::unique_ptr<Tool> lookupTool(StringRef) override { return nullptr; }
  std::unique_ptr<ExecutionQueue> createExecutionQueue() override { return nullptr; }
  void hadCommandFailure() override {}
  void commandStatusChanged(Command*, CommandStatusKind) override {}
  void commandPreparing(Command*) override {}
  bool shouldCommandStart(Command*) override { return true; }
  void commandStarted(Command*) override { g_started++; }
  void commandHadError(Command*, StringRef) override {}
  void commandHadNote(Command*, StringRef) override {}
  void commandHadWarning(Command*, StringRef) override {}
  void commandFinished(Command*, ProcessStatus st) override { g_finished++; g_finishedStatus = (int)st; }
  void commandFoundDiscoveredDependency(Command*, StringRef, DiscoveredDependencyKind) override {}
  void commandCannotBuildOutputDueToMissingInputs(Command*, Node*, ArrayRef<BuildKey>) override {}
  Command* chooseCommandFromMultipleProducers(Node*, std::vector<Command*>) override { return nullptr; }
  void cannotBuildNodeDueToMultipleProducers(Node*, std::vector<Command*>) override {}
  void determinedRuleNeedsToRun(core::Rule*, core::Rule::RunReason, core::Rule*) override {}
};
static HDel* g_del;
extern "C" BuildSystemDelegate* stub_getDelegate(BuildSystem*) { return g_del; }
static int g_ran = 0, g_procStatus = -1;
struct HCmd : public ExternalCommand {
  HCmd(StringRef n) : ExternalCommand(n) {}
  void getShortDescription(SmallVectorImpl<char>&) const override {}
  void getVerboseDescription(SmallVectorImpl<char>&) const override {}
  void startExternalCommand(BuildSystem&, core::TaskInterface) override {}
  void provideValueExternalCommand(BuildSystem&, core::TaskInterface, uintptr_t, const BuildValue&) override {}
  void executeExternalCommand(BuildSystem&, core::TaskInterface, QueueJobContext*, llvm::Optional<ProcessCompletionFn> fn) override {
    g_ran++;
    // the process ends as a success, a failure or a cancellation (the only statuses a finished process has); its completion handler runs
    if (fn.hasValue()) { uint8_t st = nondet_u8(); VF_ASSUME(st < 3); g_procStatus = st; ProcessResult r; r.status = (ProcessStatus)st; (*fn)(r); }
  }
};
// arbitrary file system: the info reported for output i is g_cur[i]
static FileInfo g_cur[3]; static std::string* g_names[3]; static int g_fsCalls = 0;
struct HFS : public FileSystem {
  bool createDirectory(const std::string&) override { return false; }
  bool createDirectories(const std::string&) override { return false; }
  std::unique_ptr<llvm::MemoryBuffer> getFileContents(const std::string&) override { return nullptr; }
  bool remove(const std::string&) override { return false; }
  FileChecksum getFileChecksum(const std::string&) override { return FileChecksum(); }
  FileInfo getFileInfo(const std::string& p) override { g_fsCalls++; for (int i = 0; i < 3; i++) if (g_names[i] && p == *g_names[i]) return g_cur[i]; VF_ASSERT(false, "harness: stat of an unknown path"); VF_STOP(); return FileInfo(); }
  FileInfo getLinkInfo(const std::string& p) override { return getFileInfo(p); }
  bool createSymlink(const std::string&, const std::string&) override { return false; }
};
static HFS* g_fs;
extern "C" FileSystem* stub_getFileSystem(BuildSystem* s) { return g_fs; }
struct SR { const char* p; size_t n; };
extern "C" SR stub_parent_path(const char*, size_t, int) { SR r = { "", 0 }; return r; }      // outputs of the harness live in the working directory: nothing to create
static int g_results = 0, g_resKind = -1; static bool g_resSuccessful = false; static unsigned g_resN = 0; static FileInfo g_resInfo[3];
static void fill(FileInfo& a) {
  a.device = nondet_u64(); a.inode = nondet_u64(); a.mode = nondet_u64(); a.size = nondet_u64(); a.modTime.seconds = nondet_u64(); a.modTime.nanoseconds = nondet_u64();
  for (int i = 0; i < 32; i++) a.checksum.bytes[i] = 0;
}
static bool same(const FileInfo& a, const FileInfo& b) { return a.device == b.device && a.inode == b.inode && a.size == b.size && a.modTime.seconds == b.modTime.seconds && a.modTime.nanoseconds == b.modTime.nanoseconds; }
static bool missing(const FileInfo& a) { return a.device == 0 && a.inode == 0 && a.mode == 0 && a.size == 0 && a.modTime.seconds == 0 && a.modTime.nanoseconds == 0; }
static const char* const kNames[3] = { "o0", "o1", "o2" };
static BuildNode* mkNode(int i, bool virt, bool mutated, bool ts) {
  BuildNode* n = (virt ? BuildNode::makeVirtual(kNames[i]) : BuildNode::makePlain(kNames[i])).release();
  n->mutated = mutated; n->commandTimestamp = ts; g_names[i] = new std::string(kNames[i]); return n;
}
// ---- ideal hash: the signature is the transcript of what was fed into the hash chain
#if VF_CASE == 3 || VF_CASE == 6
struct Ent { uint64_t prev; int kind; unsigned len; unsigned char b[2]; };
static Ent g_tr[40]; static unsigned g_ntr = 0;
static uint64_t intern(uint64_t prev, int kind, const char* p, unsigned len) {
  VF_ASSERT(len <= 2, "model: hashed string longer than 2 bytes (outside bound)"); if (len > 2) VF_STOP();
  for (unsigned i = 0; i < g_ntr; i++) if (g_tr[i].prev == prev && g_tr[i].kind == kind && g_tr[i].len == len && (len < 1 || g_tr[i].b[0] == (unsigned char)p[0]) && (len < 2 || g_tr[i].b[1] == (unsigned char)p[1])) return 1000 + i;
  VF_ASSERT(g_ntr < 40, "model: hash transcript full (outside bound)"); if (g_ntr >= 40) VF_STOP();
  g_tr[g_ntr].prev = prev; g_tr[g_ntr].kind = kind; g_tr[g_ntr].len = len; if (len > 0) g_tr[g_ntr].b[0] = p[0]; if (len > 1) g_tr[g_ntr].b[1] = p[1];
  return 1000 + g_ntr++;
}
extern "C" uint64_t stub_hash_value_sr(const char* p, size_t n) { return intern(0, 1, p, (unsigned)n); }
extern "C" uint64_t stub_hash_combine_sr(const uint64_t* prev, const llvm::StringRef* s) { return intern(*prev, 2, s->data(), (unsigned)s->size()); }
extern "C" uint64_t stub_hash_combine_str(const uint64_t* prev, const std::string* s) { return intern(*prev, 2, s->data(), (unsigned)s->size()); }
extern "C" uint64_t stub_hash_combine_bool(const uint64_t* prev, const bool* b) { char c = *b ? 1 : 0; return intern(*prev, 3, &c, 1); }
struct Def { unsigned nameLen; char name[2]; unsigned nin, nout; char in[2][2]; unsigned inLen[2]; char out[2][2]; unsigned outLen[2]; bool f[3]; };
static void pick(char* b, unsigned* len) { *len = nondet_u8() % 3; for (unsigned i = 0; i < 2; i++) { uint8_t c = nondet_u8(); VF_ASSUME(c == 'a' || c == 'b'); b[i] = (char)c; } }
static void pickDef(Def& d, unsigned nin, unsigned nout) { pick(d.name, &d.nameLen); d.nin = nin; d.nout = nout; /* list lengths are concrete per query */ for (int i = 0; i < 2; i++) { pick(d.in[i], &d.inLen[i]); pick(d.out[i], &d.outLen[i]); } for (int i = 0; i < 3; i++) d.f[i] = nondet_bool(); }
static bool eqStr(const char* a, unsigned la, const char* b, unsigned lb) { if (la != lb) return false; for (unsigned i = 0; i < la; i++) if (a[i] != b[i]) return false; return true; }
static bool eqDef(const Def& a, const Def& b) {
  if (!eqStr(a.name, a.nameLen, b.name, b.nameLen) || a.nin != b.nin || a.nout != b.nout) return false;
  for (unsigned i = 0; i < a.nin; i++) if (!eqStr(a.in[i], a.inLen[i], b.in[i], b.inLen[i])) return false;
  for (unsigned i = 0; i < a.nout; i++) if (!eqStr(a.out[i], a.outLen[i], b.out[i], b.outLen[i])) return false;
  return a.f[0] == b.f[0] && a.f[1] == b.f[1] && a.f[2] == b.f[2];
}
static uint64_t sigOf(const Def& d) {
  HCmd& c = *new HCmd(StringRef(d.name, d.nameLen));
  c.inputs.reserve(3); c.outputs.reserve(3);
  for (unsigned i = 0; i < d.nin; i++) c.inputs.push_back(BuildNode::makePlain(StringRef(d.in[i], d.inLen[i])).release());
  for (unsigned i = 0; i < d.nout; i++) c.outputs.push_back(BuildNode::makePlain(StringRef(d.out[i], d.outLen[i])).release());
  c.allowMissingInputs = d.f[0]; c.allowModifiedOutputs = d.f[1]; c.alwaysOutOfDate = d.f[2];
  return c.getSignature().value;
}
#endif
extern "C" void harness_extcmd(void) {
  g_fs = new HFS;
  BuildSystem* sys = (BuildSystem*)malloc(64);
  const unsigned K = VF_K;
#if VF_CASE == 0
  HCmd& cmd = *new HCmd("c"); cmd.outputs.reserve(4);
  bool virt[3], mut[3]; FileInfo stored[3];
  for (unsigned i = 0; i < K; i++) { virt[i] = nondet_bool(); mut[i] = nondet_bool(); cmd.outputs.push_back(mkNode(i, virt[i], mut[i], false)); fill(stored[i]); fill(g_cur[i]); if (nondet_bool()) g_cur[i] = stored[i]; }
  cmd.alwaysOutOfDate = nondet_bool();
  uint8_t kind = nondet_u8(); VF_ASSUME(kind < 4);    // 0 successful, 1 failed, 2 cancelled, 3 skipped
  BuildValue& v = *new BuildValue(kind == 0 ? BuildValue::makeSuccessfulCommand(llvm::ArrayRef<FileInfo>(stored, K)) : kind == 1 ? BuildValue::makeFailedCommand() : kind == 2 ? BuildValue::makeCancelledCommand() : BuildValue::makeSkippedCommand());
  bool valid = cmd.isResultValid(*sys, v);
  vf_observe(valid);
  bool expect = !cmd.alwaysOutOfDate && kind == 0;
  for (unsigned i = 0; i < K; i++) if (!virt[i]) { if (mut[i] ? (missing(stored[i]) != missing(g_cur[i])) : !same(stored[i], g_cur[i])) expect = false; }
  VF_ASSERT(valid == expect, "a stored command result is valid exactly when the command is not always-out-of-date, it succeeded, and every non-virtual output still matches what was recorded (existence only for mutated outputs)");
#elif VF_CASE == 1
  HCmd& cmd = *new HCmd("c"); cmd.outputs.reserve(4);
  bool virt[3], ts[3]; FileInfo stored[3];
  for (unsigned i = 0; i < K; i++) { virt[i] = nondet_bool(); ts[i] = nondet_bool(); cmd.outputs.push_back(mkNode(i, virt[i], false, ts[i])); fill(stored[i]); if (nondet_bool()) memset(&stored[i], 0, sizeof(FileInfo)); }
  uint8_t kind = nondet_u8(); VF_ASSUME(kind < 5);    // 0 successful, 1 failed, 2 propagated failure, 3 cancelled, 4 skipped
  BuildValue& v = *new BuildValue(kind == 0 ? BuildValue::makeSuccessfulCommand(llvm::ArrayRef<FileInfo>(stored, K)) : kind == 1 ? BuildValue::makeFailedCommand() : kind == 2 ? BuildValue::makePropagatedFailureCommand()
                                  : kind == 3 ? BuildValue::makeCancelledCommand() : BuildValue::makeSkippedCommand());
  uint8_t which = nondet_u8(); VF_ASSUME(which < K);
  BuildValue& r = *new BuildValue(cmd.getResultForOutput(cmd.outputs[which], v));
  vf_observe((uint64_t)r.getKind());
  if (kind >= 1 && kind <= 3) VF_ASSERT(r.isFailedInput(), "a failed, cancelled or upstream-failed command gives its outputs the failed-input value");
  else if (kind == 4) VF_ASSERT(r.isSkippedCommand(), "a skipped command is passed on as skipped");
  else if (virt[which] && !ts[which]) VF_ASSERT(r.isVirtualInput(), "virtual outputs carry no file information");
  else if (missing(stored[which])) VF_ASSERT(r.isMissingOutput(), "an output the command did not create is reported missing");
  else VF_ASSERT(r.isExistingInput() && same(r.getOutputInfo(), stored[which]) && r.getOutputInfo().mode == stored[which].mode, "each output gets the file information recorded at its own position");
#elif VF_CASE == 2
  HCmd& cmd = *new HCmd("c"); cmd.inputs.reserve(4);
  for (unsigned i = 0; i < K; i++) cmd.inputs.push_back(mkNode(i, false, false, false));
  cmd.allowMissingInputs = nondet_bool();
  cmd.skipValue = llvm::None;
  core::TaskInterface ti(nullptr, nullptr);
  bool bad = false;
  for (unsigned i = 0; i < K; i++) {
    uint8_t k = nondet_u8(); VF_ASSUME(k < 7);   // 0 existing 1 missing input 2 missing output 3 failed input 4 virtual 5 skipped 6 successful command (custom task input)
    FileInfo fi; fill(fi); VF_ASSUME(!missing(fi));
    BuildValue& v = *new BuildValue(k == 0 ? BuildValue::makeExistingInput(fi) : k == 1 ? BuildValue::makeMissingInput() : k == 2 ? BuildValue::makeMissingOutput() : k == 3 ? BuildValue::makeFailedInput()
                                    : k == 4 ? BuildValue::makeVirtualInput() : k == 5 ? BuildValue::makeSkippedCommand() : BuildValue::makeSuccessfulCommand(llvm::ArrayRef<FileInfo>(&fi, 1)));
    if (k == 3 || (k == 1 && !cmd.allowMissingInputs)) bad = true;
    cmd.provideValue(*sys, ti, i, core::KeyType("Nx"), v);
  }
  vf_observe(cmd.skipValue.hasValue());
  VF_ASSERT(cmd.skipValue.hasValue() == bad, "the command is marked to be skipped exactly when some input failed or a required input is missing - whatever is delivered afterwards");
  if (bad) VF_ASSERT(cmd.skipValue->isPropagatedFailureCommand(), "the skip value is a propagated failure");
#elif VF_CASE == 4
  // ---- execute(): run, or (allow-modified-outputs) bring up to date without running - never on the strength of a failed or cancelled prior result
  HCmd& cmd = *new HCmd("c"); cmd.outputs.reserve(4);
  bool virt[3]; bool anyGone = false;
  for (unsigned i = 0; i < K; i++) { virt[i] = nondet_bool(); cmd.outputs.push_back(mkNode(i, virt[i], false, false)); fill(g_cur[i]); if (nondet_bool()) memset(&g_cur[i], 0, sizeof(FileInfo)); if (virt[i] || missing(g_cur[i])) anyGone = true; }
  cmd.allowModifiedOutputs = nondet_bool(); cmd.skipValue = llvm::None;
  bool inputGone = nondet_bool(); cmd.canUpdateIfNewer = !inputGone;        // (provideValue clears it when an input reports a missing output - F2's subject)
  core::TaskInterface ti(nullptr, nullptr);
#if VF_PK < 5
  { FileInfo fi; fill(fi);
    BuildValue& prior = *new BuildValue(VF_PK == 0 ? BuildValue::makeSuccessfulCommand(llvm::ArrayRef<FileInfo>(&fi, 1)) : VF_PK == 1 ? BuildValue::makeFailedCommand() : VF_PK == 2 ? BuildValue::makePropagatedFailureCommand()
                                        : VF_PK == 3 ? BuildValue::makeCancelledCommand() : BuildValue::makeSkippedCommand());
    cmd.providePriorValue(*sys, ti, prior); }
#endif
  g_del = new HDel;
  cmd.execute(*sys, ti, nullptr, [](BuildValue&& v) { g_results++; g_resSuccessful = v.isSuccessfulCommand(); g_resKind = v.isSuccessfulCommand() ? 0 : v.isFailedCommand() ? 1 : v.isCancelledCommand() ? 2 : 9;
                                                     if (v.isSuccessfulCommand()) { g_resN = v.getNumOutputs(); for (unsigned i = 0; i < v.getNumOutputs() && i < 3; i++) g_resInfo[i] = v.getNthOutputInfo(i); } });
  vf_observe(g_ran); vf_observe(g_results);
  VF_ASSERT(g_ran <= 1 && g_results == 1, "the command runs at most once and reports exactly one result");
  bool updated = g_ran == 0;
  if (updated) VF_ASSERT(g_resSuccessful && VF_PK == 0 && cmd.allowModifiedOutputs && !inputGone && !anyGone && g_started == 0, "a command is brought up to date without running only when it may have modified outputs, its previous result was a success, and every output exists");
  if (VF_PK != 0) VF_ASSERT(g_ran == 1, "a command whose recorded result is a failure, a cancellation or a skip (or that has none) is run again");
  if (!cmd.allowModifiedOutputs || inputGone || anyGone) VF_ASSERT(g_ran == 1, "a command with a missing output, or that must not keep modified outputs, is run");
  if (g_ran == 1) {
    VF_ASSERT(g_started == 1 && g_finished == 1 && g_finishedStatus == g_procStatus, "the client sees the command start and finish with the process's status");
    VF_ASSERT(g_resKind == g_procStatus, "the recorded result is a success, a failure or a cancellation exactly as the process ended (a failed or cancelled command never records a success)");
    VF_WITNESS_ALSO("command ran");
  }
  if (g_resSuccessful) { VF_ASSERT(g_resN == K, "a success records one file record per output"); for (unsigned i = 0; i < K; i++) if (!virt[i]) VF_ASSERT(same(g_resInfo[i], g_cur[i]) && g_resInfo[i].mode == g_cur[i].mode, "...describing the output as it is now"); }
#elif VF_CASE == 6
  // node signature (BuildNode::getSignature): the rule of a produced node changes its signature when the SET-UP of its producers changes -
  // two nodes of the same kind with VF_AI / VF_BI producers (names 0..2 bytes over {a,b}) have equal signatures exactly when the producer names agree in order
  Def& A = *new Def; Def& B = *new Def; pickDef(A, VF_AI, 0); pickDef(B, VF_BI, 0);
  BuildNode* na = BuildNode::makePlain("n").release(); BuildNode* nb = BuildNode::makePlain("n").release();
  na->getProducers().reserve(3); nb->getProducers().reserve(3);
  for (unsigned i = 0; i < A.nin; i++) na->getProducers().push_back(new HCmd(StringRef(A.in[i], A.inLen[i])));
  for (unsigned i = 0; i < B.nin; i++) nb->getProducers().push_back(new HCmd(StringRef(B.in[i], B.inLen[i])));
  uint64_t sa = na->getSignature().value, sb = nb->getSignature().value;
  bool same = A.nin == B.nin; for (unsigned i = 0; same && i < A.nin; i++) if (!eqStr(A.in[i], A.inLen[i], B.in[i], B.inLen[i])) same = false;
  vf_observe(sa == sb);
  if (same) VF_ASSERT(sa == sb, "nodes with the same producers have equal signatures");
  else VF_ASSERT(sa != sb, "a node whose producers changed (another producer name, another number of producers) has another signature (given an injective hash)");
#else
  Def& A = *new Def; Def& B = *new Def; pickDef(A, VF_AI, VF_AO); pickDef(B, VF_BI, VF_BO);
#ifdef VF_EXCLUDE_LIST_BOUNDARY
  // known finding: the input and output lists are hashed without a separator, so moving the
  // boundary between them does not change the signature; that pair shape is excluded here
  { bool sameSeq = A.nin + A.nout == B.nin + B.nout;
    if (sameSeq) for (unsigned i = 0; i < A.nin + A.nout && i < 4; i++) {
      const char* pa = i < A.nin ? A.in[i] : A.out[i - A.nin]; unsigned la = i < A.nin ? A.inLen[i] : A.outLen[i - A.nin];
      const char* pb = i < B.nin ? B.in[i] : B.out[i - B.nin]; unsigned lb = i < B.nin ? B.inLen[i] : B.outLen[i - B.nin];
      if (!eqStr(pa, la, pb, lb)) sameSeq = false; }
    VF_ASSUME(!(sameSeq && A.nin != B.nin)); }
#endif
  uint64_t sa = sigOf(A), sb = sigOf(B);
  vf_observe(sa == sb);
  if (eqDef(A, B)) VF_ASSERT(sa == sb, "equal definitions have equal signatures (nothing but the definition enters the hash)");
  else VF_ASSERT(sa != sb, "definitions differing in name, an input, an output, a list length or a flag have different signatures (given an injective hash)");
#endif
  VF_WITNESS();
}
