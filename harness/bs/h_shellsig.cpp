// ShellCommand::getSignature (lib/BuildSystem/ShellCommand.cpp) over an ideal hash: C09 S3.
// Two definitions of the same list shape (VF_NA arguments, VF_NE environment entries, VF_NP dependency-file paths: concrete per query);
// everything else symbolic: argument / environment / path strings (0..1 byte over {a,b}), deps style (4 values), inherit-env,
// can-safely-interrupt, and (VF_SIGDATA) an explicit signature string.
#include "vf.h"
#include "llbuild/BuildSystem/ShellCommand.h"
#include "llbuild/BuildSystem/ExternalCommand.h"
#include "llbuild/BuildSystem/BuildNode.h"
#include "llbuild/BuildSystem/BuildValue.h"
#include "llbuild/BuildSystem/BuildSystem.h"
using namespace llbuild; using namespace llbuild::basic; using namespace llbuild::buildsystem;
#ifndef VF_NA
#define VF_NA 1
#endif
#ifndef VF_NE
#define VF_NE 1
#endif
#ifndef VF_NP
#define VF_NP 1
#endif
#ifndef VF_SIGDATA
#define VF_SIGDATA 0
#endif
struct Ent { uint64_t prev; int kind; unsigned len; unsigned char b[2]; };
static Ent g_tr[48]; static unsigned g_ntr = 0;
static uint64_t intern(uint64_t prev, int kind, const char* p, unsigned len) {
  VF_ASSERT(len <= 2, "model: hashed string longer than 2 bytes (outside bound)"); if (len > 2) VF_STOP();
  for (unsigned i = 0; i < g_ntr; i++) if (g_tr[i].prev == prev && g_tr[i].kind == kind && g_tr[i].len == len && (len < 1 || g_tr[i].b[0] == (unsigned char)p[0]) && (len < 2 || g_tr[i].b[1] == (unsigned char)p[1])) return 1000 + i;
  VF_ASSERT(g_ntr < 48, "model: hash transcript full (outside bound)"); if (g_ntr >= 48) VF_STOP();
  g_tr[g_ntr].prev = prev; g_tr[g_ntr].kind = kind; g_tr[g_ntr].len = len; if (len > 0) g_tr[g_ntr].b[0] = p[0]; if (len > 1) g_tr[g_ntr].b[1] = p[1];
  return 1000 + g_ntr++;
}
extern "C" uint64_t stub_hash_value_sr(const char* p, size_t n) { return intern(0, 1, p, (unsigned)n); }
extern "C" uint64_t stub_hash_combine_sr(const uint64_t* prev, const llvm::StringRef* s) { return intern(*prev, 2, s->data(), (unsigned)s->size()); }
extern "C" uint64_t stub_hash_combine_str(const uint64_t* prev, const std::string* s) { return intern(*prev, 2, s->data(), (unsigned)s->size()); }
extern "C" uint64_t stub_hash_combine_bool(const uint64_t* prev, const bool* b) { char c = *b ? 1 : 0; return intern(*prev, 3, &c, 1); }
struct Str { unsigned len; char b[2]; };
struct Def { Str arg[2], ek[1], ev[1], path[1], sig; uint8_t style; bool inherit, interrupt; };
static void pick(Str& s, unsigned maxLen) { s.len = nondet_u8() % (maxLen + 1); for (unsigned i = 0; i < 2; i++) { uint8_t c = nondet_u8(); VF_ASSUME(c == 'a' || c == 'b'); s.b[i] = (char)c; } }
static void pickDef(Def& d) {
  for (int i = 0; i < 2; i++) pick(d.arg[i], 1);
  pick(d.ek[0], 1); pick(d.ev[0], 1); pick(d.path[0], 1); pick(d.sig, 2);
#if VF_SIGDATA
  VF_ASSUME(d.sig.len >= 1);
#endif
  d.style = nondet_u8(); VF_ASSUME(d.style < 4); d.inherit = nondet_bool(); d.interrupt = nondet_bool();
}
static bool eqStr(const Str& a, const Str& b) { if (a.len != b.len) return false; for (unsigned i = 0; i < a.len; i++) if (a.b[i] != b.b[i]) return false; return true; }
static bool eqDef(const Def& a, const Def& b) {
#if VF_SIGDATA
  return eqStr(a.sig, b.sig);      // an explicit signature replaces every other attribute of the shell command
#else
  for (unsigned i = 0; i < VF_NA; i++) if (!eqStr(a.arg[i], b.arg[i])) return false;
  for (unsigned i = 0; i < VF_NE; i++) if (!eqStr(a.ek[i], b.ek[i]) || !eqStr(a.ev[i], b.ev[i])) return false;
  for (unsigned i = 0; i < VF_NP; i++) if (!eqStr(a.path[i], b.path[i])) return false;
  return a.style == b.style && a.inherit == b.inherit && a.interrupt == b.interrupt;
#endif
}
static uint64_t sigOf(const Def& d) {
  ShellCommand& c = *new ShellCommand(StringRef("c", 1));
  c.args.reserve(3);
  for (unsigned i = 0; i < VF_NA; i++) c.args.push_back(StringRef(d.arg[i].b, d.arg[i].len));
  for (unsigned i = 0; i < VF_NE; i++) c.env.push_back(std::make_pair(StringRef(d.ek[i].b, d.ek[i].len), StringRef(d.ev[i].b, d.ev[i].len)));
  for (unsigned i = 0; i < VF_NP; i++) c.depsPaths.push_back(std::string(d.path[i].b, d.path[i].len));
#if VF_SIGDATA
  c.signatureData = std::string(d.sig.b, d.sig.len);
#endif
  c.depsStyle = (ShellCommand::DepsStyle)d.style; c.inheritEnv = d.inherit; c.canSafelyInterrupt = d.interrupt;
  uint64_t s1 = c.getSignature().value;
  uint64_t s2 = c.getSignature().value;      // second call: the cached value
  VF_ASSERT(s1 == s2 && s1 != 0, "the cached signature is the computed one and is never the 'not computed' sentinel");
  return s1;
}
extern "C" void harness_shellsig(void) {
  Def& A = *new Def; Def& B = *new Def; pickDef(A); pickDef(B);
#ifdef VF_EXCLUDE_DEPS_STYLE
  // known finding: the deps style enters the hash as a bool (combine(int) resolves to combine(bool)), so the three styles that
  // use a dependency file are not told apart; pairs that differ in nothing but that are excluded here
  VF_ASSUME(!(A.style != B.style && A.style != 0 && B.style != 0));
#endif
  uint64_t sa = sigOf(A), sb = sigOf(B);
  vf_observe(sa == sb);
  if (eqDef(A, B)) VF_ASSERT(sa == sb, "equal shell-command definitions have equal signatures (nothing but the definition enters the hash)");
  else VF_ASSERT(sa != sb, "shell-command definitions differing in an argument, an environment entry, a dependency-file path, the deps style, inherit-env, can-safely-interrupt or the explicit signature have different signatures (given an injective hash)");
  VF_WITNESS();
}
