// C12-G3 (fan-out): what the directory-tree and directory-structure signature tasks request.  The
// listing of directory "d" has one child "c"; the child is reported as a directory or as a file
// (arbitrary file information).  A tree signature must recurse with a tree-signature key, a
// structure signature with a structure-signature key, for the child's path and with the same filters.
#include "vf.h"
#include VF_REPO_SRC(lib/BuildSystem/BuildSystem.cpp)
#include <sys/stat.h>
#ifndef VF_STRUCT
#define VF_STRUCT 0
#endif
static unsigned char g_reqKey[3][16]; static size_t g_reqLen[3]; static uintptr_t g_reqId[3]; static int g_nreq = 0;
extern "C" void stub_request(core::TaskInterface* ti, const core::KeyType* k, uintptr_t id) {
  if (g_nreq < 3) { g_reqLen[g_nreq] = k->size(); for (size_t i = 0; i < k->size() && i < 16; i++) g_reqKey[g_nreq][i] = (unsigned char)k->data()[i]; g_reqId[g_nreq] = id; }
  g_nreq++;
}
// llvm::sys::path::append(path, a, b, c, d) on POSIX: join with one separator (environment, lib/llvm/Support/Path.cpp)
extern "C" void stub_path_append(llvm::SmallVectorImpl<char>* path, const llvm::Twine* a, const llvm::Twine* b, const llvm::Twine* c, const llvm::Twine* d) {
  llvm::StringRef s = a->getSingleStringRef();
  bool sep = !path->empty() && path->back() != '/';
  VF_ASSUME(sep);                       // the directory of this harness is "d": a separator is needed (kept out of symex's branching, which would make every later length symbolic)
  path->push_back('/');
  for (size_t i = 0; i < s.size(); i++) path->push_back(s[i]);
}
extern "C" void harness_fanout(void) {
  StringList& filters = *new StringList();
#if VF_STRUCT
  DirectoryTreeStructureSignatureTask& task = *new DirectoryTreeStructureSignatureTask("d", std::move(filters));
#else
  DirectoryTreeSignatureTask& task = *new DirectoryTreeSignatureTask("d", std::move(filters));
#endif
  core::TaskInterface ti(nullptr, nullptr);
  // the listing value, written directly in the encoding C15-K3 establishes: kind DirectoryContents (4), one
  // output info (directory: mode S_IFDIR, inode 1), string list of 2 bytes "c\0"
  core::ValueType& listing = *new core::ValueType; listing.reserve(128);
  listing.push_back(4); listing.push_back(1); listing.push_back(0); listing.push_back(0); listing.push_back(0);
  for (int i = 0; i < 80; i++) listing.push_back(i == 8 ? 1 : i == 17 ? 0x40 : 0);
  listing.push_back(2); for (int i = 0; i < 7; i++) listing.push_back(0); listing.push_back('c'); listing.push_back(0);
  ((core::Task&)task).provideValue(ti, 0, core::KeyType("Dd"), listing);
  VF_ASSERT(g_nreq == 1 && g_reqId[0] == 1, "each listed child is requested as a node, once");
  VF_ASSERT(g_reqLen[0] == 4 && g_reqKey[0][0] == 'N' && g_reqKey[0][1] == 'd' && g_reqKey[0][2] == '/' && g_reqKey[0][3] == 'c', "the child node key is the child's path");
  // the child's node value: kind ExistingInput (2), one output info with arbitrary (non-missing) content
  core::ValueType& childVal = *new core::ValueType; childVal.reserve(128);
  childVal.push_back(2); childVal.push_back(1); childVal.push_back(0); childVal.push_back(0); childVal.push_back(0);
  uint8_t rec[80]; bool any = false; for (int i = 0; i < 80; i++) { rec[i] = i < 48 ? nondet_u8() : 0; if (rec[i]) any = true; childVal.push_back(rec[i]); }
  VF_ASSUME(any);
  bool isDir = (rec[17] & 0x40) != 0;     // mode is the third 64-bit field, little-endian; S_IFDIR = 0x4000
  ((core::Task&)task).provideValue(ti, 1, core::KeyType("Nd/c"), childVal);
  vf_observe(g_nreq);
  if (!isDir) VF_ASSERT(g_nreq == 1, "a non-directory child needs no further input");
  else {
    VF_ASSERT(g_nreq == 2 && g_reqId[1] == 2, "a directory child is recursed into, once");
    BuildKey sub = BuildKey::fromData(core::KeyType((const char*)g_reqKey[1], g_reqLen[1]));
    VF_ASSERT(sub.getKind() == (VF_STRUCT ? BuildKey::Kind::DirectoryTreeStructureSignature : BuildKey::Kind::DirectoryTreeSignature),
              "the recursion asks for the same kind of signature: structure for a structure input, full tree signature for a tree input");
    llvm::StringRef p = VF_STRUCT ? sub.getFilteredDirectoryPath() : sub.getDirectoryTreeSignaturePath();
    VF_ASSERT(p.size() == 3 && p[0] == 'd' && p[1] == '/' && p[2] == 'c', "the recursion is for the child's path");
    // the sub-directory's signature arrives: it is kept for the hash (G1/G2 decide what the hash covers)
    core::ValueType& sub2 = *new core::ValueType; sub2.push_back(nondet_u8()); sub2.push_back(nondet_u8());
    ((core::Task&)task).provideValue(ti, 2, core::KeyType("x"), sub2);
    VF_ASSERT(g_nreq == 2, "a sub-directory signature needs no further input");
#if VF_STRUCT
    auto& kept = task.childResults[0].directoryStructureSignatureValue;
#else
    auto& kept = task.childResults[0].directorySignatureValue;
#endif
    VF_ASSERT(kept.hasValue() && kept->size() == 2 && (*kept)[0] == sub2[0] && (*kept)[1] == sub2[1], "the sub-directory's signature is kept for the child it belongs to");
  }
  // what the hash will be computed from is what the engine delivered
  VF_ASSERT(task.directoryValue.size() == listing.size() && task.childResults.size() == 1 && task.childResults[0].filename.size() == 1 && task.childResults[0].filename[0] == 'c', "the listing and the child's name are kept");
  VF_ASSERT(task.childResults[0].value.size() == childVal.size(), "the child's node value is kept");
  for (size_t i = 0; i < childVal.size() && i < 90; i++) VF_ASSERT(task.childResults[0].value[i] == childVal[i], "the child's node value is kept");
  for (size_t i = 0; i < listing.size() && i < 100; i++) VF_ASSERT(task.directoryValue[i] == listing[i], "the directory's own value is kept");
  VF_WITNESS();
}
