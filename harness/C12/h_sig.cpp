// C12-G1/G2 (signature content): what the directory-tree and directory-structure signature tasks put into their
// signature.  The hash functions are replaced by an ideal hash (equal transcripts <-> equal codes), so the
// completed value is a faithful image of what was fed in.  Two task instances get arbitrary inputs for the same
// directory; the signatures must agree exactly when the inputs agree on what the property makes observable:
//   tree signature      : the directory's own value, every field of every child's file record, every child's sub-signature
//   structure signature : the directory's mode, every child's NAME and MODE (type), every child's sub-signature
//                         - and nothing else (size, timestamps, inode: content-only changes do not trigger).
#include "vf.h"
#include VF_REPO_SRC(lib/BuildSystem/BuildSystem.cpp)
#ifndef VF_STRUCT
#define VF_STRUCT 0
#endif
#ifndef VF_NC
#define VF_NC 1
#endif
// Ideal hash as a transcript: every hash operation appends (kind, operands, bytes) and returns the entry's position as
// its code.  Under the ideal-hash reading (distinct transcripts <-> distinct codes) the final signatures of two runs are
// equal exactly when their transcripts are equal and every entry feeds, directly or not, into the final one.
#define VF_HB 96
struct Ent { int kind; uint64_t a, b; unsigned len; unsigned char d[VF_HB]; };
static Ent g_tr[2][12]; static unsigned g_ntr[2] = { 0, 0 }; static int g_run = 0;
static uint64_t intern(int kind, uint64_t a, uint64_t b, const unsigned char* p, unsigned len) {
  VF_ASSERT(len <= VF_HB, "model: hashed byte range longer than 96 bytes (outside bound)"); if (len > VF_HB) VF_STOP();
  unsigned n = g_ntr[g_run];
  VF_ASSERT(n < 12, "model: hash transcript full (outside bound)"); if (n >= 12) VF_STOP();
  Ent& e = g_tr[g_run][n]; e.kind = kind; e.a = a; e.b = b; e.len = len; for (unsigned k = 0; k < VF_HB; k++) e.d[k] = k < len ? p[k] : 0;
  g_ntr[g_run] = n + 1;
  return 0x1000 + n;
}
extern "C" uint64_t stub_hash_string(const std::string* s) { return intern(1, 0, 0, (const unsigned char*)s->data(), (unsigned)s->size()); }
extern "C" uint64_t stub_hash_range(const unsigned char* f, const unsigned char* l) { return intern(2, 0, 0, f, (unsigned)(l - f)); }
extern "C" uint64_t stub_hash_range2(unsigned char* f, unsigned char* l) { return intern(2, 0, 0, f, (unsigned)(l - f)); }
extern "C" uint64_t stub_hash_cc(const uint64_t* a, const uint64_t* b) { return intern(3, *a, *b, nullptr, 0); }
extern "C" uint64_t stub_hash_cu(const uint64_t* a, const uint64_t* b) { return intern(4, *a, *b, nullptr, 0); }
extern "C" uint64_t stub_hash_cs(const uint64_t* a, const std::string* s) { return intern(5, *a, 0, (const unsigned char*)s->data(), (unsigned)s->size()); }
static unsigned char g_out[2][40]; static size_t g_outLen[2]; static unsigned g_completes = 0;
extern "C" void stub_complete(core::TaskInterface*, core::ValueType* v, bool) { g_completes++; g_outLen[g_run] = v->size(); for (size_t i = 0; i < v->size() && i < 40; i++) g_out[g_run][i] = (*v)[i]; }
// a file record: device, inode, mode, size, seconds, nanoseconds (the checksum field is zero, as stat-based records have it)
struct In { uint64_t dir[6]; unsigned char name[VF_NC]; uint64_t rec[VF_NC][6]; bool hasSig[VF_NC]; unsigned char sig[VF_NC][2]; };
static void pick(In& in) {
  for (int f = 0; f < 6; f++) in.dir[f] = nondet_u64();
  for (int i = 0; i < VF_NC; i++) { uint8_t c = nondet_u8(); VF_ASSUME(c == 'a' || c == 'b'); in.name[i] = c; for (int f = 0; f < 6; f++) in.rec[i][f] = nondet_u64(); for (int k = 0; k < 2; k++) in.sig[i][k] = nondet_u8(); in.hasSig[i] = nondet_bool(); }
}
// an encoded BuildValue with one output info (C15-K3 establishes the layout): kind, count 1, then the file record
static core::ValueType* encInfo(uint8_t kind, const uint64_t* rec, bool listing) {
  core::ValueType& v = *new core::ValueType; v.reserve(128);
  v.push_back(kind); v.push_back(1); v.push_back(0); v.push_back(0); v.push_back(0);
  for (int i = 0; i < 80; i++) { unsigned f = i / 8, sh = (i % 8) * 8; v.push_back(i < 48 ? (uint8_t)(rec[f] >> sh) : 0); }
  if (listing) { for (int i = 0; i < 8; i++) v.push_back(0); }      // an empty string list
  return &v;
}
static void run(int r, const In& in) {
  g_run = r;
  StringList& filters = *new StringList();
#if VF_STRUCT
  DirectoryTreeStructureSignatureTask& t = *new DirectoryTreeStructureSignatureTask("d", std::move(filters));
  t.directoryValue = *encInfo(4, in.dir, true);
#else
  DirectoryTreeSignatureTask& t = *new DirectoryTreeSignatureTask("d", std::move(filters));
  t.directoryValue = *encInfo(4, in.dir, true);
#endif
  t.childResults.reserve(2);
  for (int i = 0; i < VF_NC; i++) {
    core::ValueType sig; sig.push_back(in.sig[i][0]); sig.push_back(in.sig[i][1]);
#if VF_STRUCT
    t.childResults.emplace_back(DirectoryTreeStructureSignatureTask::SubpathInfo{ std::string(1, (char)in.name[i]), *encInfo(2, in.rec[i], false), llvm::None });
    if (in.hasSig[i]) t.childResults[i].directoryStructureSignatureValue = sig;
#else
    t.childResults.emplace_back(DirectoryTreeSignatureTask::SubpathInfo{ std::string(1, (char)in.name[i]), *encInfo(2, in.rec[i], false), llvm::None });
    if (in.hasSig[i]) t.childResults[i].directorySignatureValue = sig;
#endif
  }
  core::TaskInterface ti(nullptr, nullptr);
  ((core::Task&)t).inputsAvailable(ti);
}
extern "C" void harness_sig(void) {
  static In a, b; pick(a); pick(b);
  run(0, a); run(1, b);
  vf_observe(g_completes); vf_observe(g_outLen[0]);
  VF_ASSERT(g_completes == 2 && g_outLen[0] == g_outLen[1] && g_outLen[0] <= 40, "each task reports one signature value");
  // the reported signature is the code of the last hash operation, and every operation feeds into a later one
  for (int r = 0; r < 2; r++) {
    unsigned n = g_ntr[r]; VF_ASSERT(n >= 1 && n <= 12, "the signature is computed by hashing");
    // (compared in encoded form: the codec is C15's subject)
    core::ValueType exp = (VF_STRUCT ? BuildValue::makeDirectoryTreeStructureSignature(basic::CommandSignature(uint64_t(0x1000 + n - 1))) : BuildValue::makeDirectoryTreeSignature(basic::CommandSignature(uint64_t(0x1000 + n - 1)))).toData();
    VF_ASSERT(exp.size() == g_outLen[r] && exp.size() <= 40, "the value reported is a signature value of the right kind");
    for (size_t i = 0; i < exp.size() && i < 40; i++) VF_ASSERT(exp[i] == g_out[r][i], "the reported value is the signature value of the final hash code");
    for (unsigned i = 0; i + 1 < n && i < 12; i++) {
      bool used = false;
      for (unsigned j = i + 1; j < n && j < 12; j++) { const Ent& e = g_tr[r][j]; if ((e.kind == 3 && (e.a == 0x1000 + i || e.b == 0x1000 + i)) || ((e.kind == 4 || e.kind == 5) && e.a == 0x1000 + i)) used = true; }
      VF_ASSERT(used, "every hashed item feeds into the final signature");
    }
  }
  bool sameOut = g_ntr[0] == g_ntr[1];
  for (unsigned i = 0; i < 12; i++) if (i < g_ntr[0] && i < g_ntr[1]) { const Ent& x = g_tr[0][i]; const Ent& y = g_tr[1][i]; if (x.kind != y.kind || x.a != y.a || x.b != y.b || x.len != y.len) sameOut = false; for (unsigned k = 0; k < VF_HB; k++) if (x.d[k] != y.d[k]) sameOut = false; }
  bool sameIn = true;
#if VF_STRUCT
  if (a.dir[2] != b.dir[2]) sameIn = false;
  for (int i = 0; i < VF_NC; i++) { if (a.name[i] != b.name[i] || a.rec[i][2] != b.rec[i][2]) sameIn = false; }
#else
  // (the child's NAME is part of the listing held in the directory value; here the listing is empty and names are not compared)
  for (int f = 0; f < 6; f++) if (a.dir[f] != b.dir[f]) sameIn = false;
  for (int i = 0; i < VF_NC; i++) for (int f = 0; f < 6; f++) if (a.rec[i][f] != b.rec[i][f]) sameIn = false;
#endif
  for (int i = 0; i < VF_NC; i++) { if (a.hasSig[i] != b.hasSig[i]) sameIn = false; else if (a.hasSig[i] && (a.sig[i][0] != b.sig[i][0] || a.sig[i][1] != b.sig[i][1])) sameIn = false; }
  if (sameIn) VF_ASSERT(sameOut, "nothing observable changed beneath the directory: the signature is unchanged (no re-execution)");
  else VF_ASSERT(!sameOut, "something observable changed beneath the directory: the signature changes (the command is re-executed)");
  if (sameIn) VF_WITNESS_ALSO("equal inputs");
  VF_WITNESS();
}
