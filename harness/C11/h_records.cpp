// C11-D2: dependency-info records.  A well-framed file (version record first, then VF_R records of
// opcode + non-empty operand + NUL) is delivered completely, in order, operands byte for byte;
// an unknown opcode is reported as an error.
#include "vf.h"
#include VF_REPO_SRC(lib/Core/DependencyInfoParser.cpp)
#ifndef VF_R
#define VF_R 2
#endif
#ifndef VF_L
#define VF_L 2
#endif
namespace {
static int g_ev[8]; static const char* g_ptr[8]; static size_t g_len[8]; static int g_nev = 0; static int g_errors = 0;
static void rec(int k, llvm::StringRef s) { if (g_nev < 8) { g_ev[g_nev] = k; g_ptr[g_nev] = s.data(); g_len[g_nev] = s.size(); } g_nev++; }
struct Acts : public DependencyInfoParser::ParseActions {
  void error(const char*, uint64_t) override { g_errors++; }
  void actOnVersion(llvm::StringRef s) override { rec(0x00, s); }
  void actOnInput(llvm::StringRef s) override { rec(0x10, s); }
  void actOnMissing(llvm::StringRef s) override { rec(0x11, s); }
  void actOnOutput(llvm::StringRef s) override { rec(0x40, s); }
};
}
extern "C" void harness_records(void) {
  const unsigned R = VF_R, L = VF_L, N = (1 + R) * (2 + L);
  char* buf = (char*)malloc(N); VF_ASSUME(buf != 0);
  unsigned char op[VF_R + 1]; unsigned pos = 0;
  for (unsigned r = 0; r <= R; r++) {
    op[r] = r == 0 ? 0x00 : nondet_u8();
    if (r > 0) VF_ASSUME(op[r] == 0x10 || op[r] == 0x11 || op[r] == 0x40);
    buf[pos++] = (char)op[r];
    for (unsigned i = 0; i < L; i++) { uint8_t c = nondet_u8(); VF_ASSUME(c != 0); buf[pos++] = (char)c; }
    buf[pos++] = 0;
  }
  Acts& acts = *new Acts;
  DependencyInfoParser parser(llvm::StringRef(buf, N), acts);
  parser.parse();
  vf_observe(g_nev);
  VF_ASSERT(g_errors == 0, "a well-framed file produces no error");
  VF_ASSERT(g_nev == (int)(1 + R), "every record is delivered, none twice");
  for (unsigned r = 0; r <= R; r++) if ((int)r < g_nev) {
    VF_ASSERT(g_ev[r] == op[r], "records arrive in file order under the callback of their opcode");
    VF_ASSERT(g_ptr[r] == buf + r * (2 + L) + 1 && g_len[r] == L, "the operand is exactly the bytes between the opcode and its terminator");
  }
  VF_WITNESS();
}
