// the inline capacity of SmallString<PATH_MAX> is a size, not behaviour: 4096 -> 64 keeps the buffer within field sensitivity
#include <limits.h>
#undef PATH_MAX
#define PATH_MAX 64
