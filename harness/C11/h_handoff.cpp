// C11-D3: the hand-off from a Makefile-style dependency file to the engine
// (ShellCommand::processMakefileDiscoveredDependencies).  The parser is replaced by its contract
// (C19-H2 / C11-D1): it reports one dependency as (raw slice, unescaped word).  The command must
// register the UNESCAPED path - as it is when absolute, joined to the working directory when
// relative - as a discovered dependency on that path's node key, exactly once, and report no error.
#include "vf.h"
#include "llbuild/BuildSystem/ShellCommand.h"
#include "llbuild/BuildSystem/BuildSystem.h"
#include "llbuild/BuildSystem/BuildKey.h"
#include "llbuild/BuildSystem/BuildFile.h"
#include "llbuild/BuildSystem/BuildDescription.h"
#include "llbuild/BuildSystem/Tool.h"
#include "llbuild/Core/MakefileDepsParser.h"
#include "llbuild/Basic/ExecutionQueue.h"
#include "llvm/Support/MemoryBuffer.h"
using namespace llbuild; using namespace llbuild::basic; using namespace llbuild::buildsystem;
#ifndef VF_SHAPE
#define VF_SHAPE 0
#endif
#ifndef VF_ABS
#define VF_ABS 0
#endif
#ifndef VF_N
#define VF_N 2
#endif
static char g_raw[2 * VF_N + 1]; static unsigned g_rawLen; static char g_word[VF_N + 1]; static int g_parseCalls = 0;
static unsigned char g_key[24]; static size_t g_keyLen = 0; static unsigned char g_foundPath[24]; static size_t g_foundLen = 0; static bool g_foundInput = false; static int g_discovered = 0, g_found = 0, g_errors = 0;
struct HDel : public BuildSystemDelegate {
  HDel() : BuildSystemDelegate("h", 0) {}
  void setFileContentsBeingParsed(StringRef) override {}
  void error(StringRef, const Token&, const Twine&) override {}
  std::unique_ptr<Tool> lookupTool(StringRef) override { return nullptr; }
  std::unique_ptr<ExecutionQueue> createExecutionQueue() override { return nullptr; }
  void hadCommandFailure() override {}
  void commandStatusChanged(Command*, CommandStatusKind) override {}
  void commandPreparing(Command*) override {}
  bool shouldCommandStart(Command*) override { return true; }
  void commandStarted(Command*) override {}
  void commandHadError(Command*, StringRef) override { g_errors++; }
  void commandHadNote(Command*, StringRef) override {}
  void commandHadWarning(Command*, StringRef) override {}
  void commandFinished(Command*, ProcessStatus) override {}
  void commandFoundDiscoveredDependency(Command*, StringRef p, DiscoveredDependencyKind k) override { g_found++; g_foundLen = p.size(); g_foundInput = k == DiscoveredDependencyKind::Input; for (size_t i = 0; i < p.size() && i < 24; i++) g_foundPath[i] = (unsigned char)p[i]; }
  void commandCannotBuildOutputDueToMissingInputs(Command*, Node*, ArrayRef<BuildKey>) override {}
  Command* chooseCommandFromMultipleProducers(Node*, std::vector<Command*>) override { return nullptr; }
  void cannotBuildNodeDueToMultipleProducers(Node*, std::vector<Command*>) override {}
  void determinedRuleNeedsToRun(core::Rule*, core::Rule::RunReason, core::Rule*) override {}
};
static HDel* g_del;
extern "C" BuildSystemDelegate* stub_getDelegate(BuildSystem*) { return g_del; }
extern "C" void stub_parse(core::MakefileDepsParser* p) {           // contract of the parser: one rule, one dependency
  g_parseCalls++;
  p->actions.actOnRuleStart(StringRef("o", 1), StringRef("o", 1));
  p->actions.actOnRuleDependency(StringRef(g_raw, g_rawLen), StringRef(g_word, VF_N));
  p->actions.actOnRuleEnd();
}
extern "C" void stub_discovered(core::TaskInterface*, const core::KeyType* k) { g_discovered++; g_keyLen = k->size(); for (size_t i = 0; i < k->size() && i < 24; i++) g_key[i] = (unsigned char)k->data()[i]; }
// environment of lib/llvm/Support/Path.cpp on POSIX
extern "C" bool stub_is_absolute(const llvm::Twine* t, int) {
  StringRef s = t->getSingleStringRef(); bool r = s.size() > 0 && s[0] == '/';
  VF_ASSUME(r == (bool)VF_ABS);        // the query's concrete shape (absolute / relative); returned as a constant so that symex follows one branch
  return (bool)VF_ABS;
}
extern "C" void stub_path_append(llvm::SmallVectorImpl<char>* path, const llvm::Twine* a, const llvm::Twine* b, const llvm::Twine* c, const llvm::Twine* d) {
  StringRef s = a->getSingleStringRef();
  bool sep = !path->empty() && path->back() != '/';
  VF_ASSUME(sep);                       // the working directory of this harness is "/w": a separator is needed (kept out of symex's branching)
  path->push_back('/');
  for (size_t i = 0; i < s.size(); i++) path->push_back(s[i]);
}
struct EC { int v; const void* cat; };
extern "C" EC stub_make_absolute(llvm::SmallVectorImpl<char>* path) { EC e = { 0, 0 }; return e; }   // the working directory used here is absolute
extern "C" void harness_handoff(void) {
  g_del = new HDel;
  BuildSystem* sys = (BuildSystem*)malloc(64);
  // a path of VF_N bytes and its documented escaping (the raw slice the parser reports)
  // (one concrete escaping shape per query - VF_SHAPE, a base-3 digit per byte - so that every length stays concrete)
  unsigned e = 0; unsigned shape = VF_SHAPE;
  for (unsigned i = 0; i < VF_N; i++, shape /= 3) {
    uint8_t c = nondet_u8(); unsigned k = shape % 3;
    if (k == 0) VF_ASSUME(c == 'a' || c == '/' || c == '.'); else if (k == 1) VF_ASSUME(c == ' ' || c == '#'); else VF_ASSUME(c == '$');
    if (i == 0) VF_ASSUME(VF_ABS ? c == '/' : c != '/');     // absolute / relative
    g_word[i] = (char)c;
    if (k == 1) { g_raw[e++] = '\\'; g_raw[e++] = (char)c; } else if (k == 2) { g_raw[e++] = '$'; g_raw[e++] = '$'; } else g_raw[e++] = (char)c;
  }
  g_rawLen = e;
  ShellCommand& cmd = *new ShellCommand("c", false);
  { std::string wd("/w"); cmd.workingDirectory.swap(wd); }     // (assign(const char*) runs _M_replace, whose aliasing test compares unrelated pointers)
  struct FakeBuffer { void* vptr; const char* s; const char* e; } fb = { 0, "", "" };
  core::TaskInterface ti(nullptr, nullptr);
  bool ok = cmd.processMakefileDiscoveredDependencies(*sys, ti, nullptr, "d", (llvm::MemoryBuffer*)&fb, false);
  vf_observe(g_keyLen);
  VF_ASSERT(ok && g_errors == 0 && g_parseCalls == 1, "a well-formed dependency file is accepted");
  VF_ASSERT(g_discovered == 1 && g_found == 1, "the dependency is registered with the engine exactly once");
  bool abs = VF_N > 0 && g_word[0] == '/';
  unsigned pre = abs ? 0 : 3;     // "/w/"
  VF_ASSERT(g_keyLen == 1 + pre + VF_N && g_key[0] == 'N', "the key is the node key of the path, made absolute against the working directory iff relative");
  if (!abs) VF_ASSERT(g_key[1] == '/' && g_key[2] == 'w' && g_key[3] == '/', "relative paths are resolved against the command's working directory");
  for (unsigned i = 0; i < VF_N; i++) VF_ASSERT(g_key[1 + pre + i] == (unsigned char)g_word[i], "the registered path is the unescaped path, byte for byte");
  VF_ASSERT(g_foundInput && g_foundLen + 1 == g_keyLen, "the client is told about the same path, as an input");
  for (unsigned i = 0; i + 1 < 1 + pre + VF_N; i++) VF_ASSERT(g_foundPath[i] == g_key[i + 1], "the client is told about the same path, as an input");
  VF_WITNESS();
}
