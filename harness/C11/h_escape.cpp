// C11-D1: Makefile-style escaping round trip.  A path P of VF_N bytes over the alphabet of characters
// special to the format is written with the documented escaping (space, '#' and backslash preceded by a
// backslash, '$' doubled) and lexed by the real lexWord: the unescaped word must be P byte for byte and
// the word must end exactly where the escaped text ends.
#include "vf.h"
#include VF_REPO_SRC(lib/Core/MakefileDepsParser.cpp)
#ifndef VF_N
#define VF_N 2
#endif
extern "C" void harness_escape(void) {
  const unsigned n = VF_N;
  unsigned char P[VF_N + 1];
  for (unsigned i = 0; i < n; i++) { uint8_t c = nondet_u8(); VF_ASSUME(c == 'a' || c == ' ' || c == '#' || c == '$' || c == '\\' || c == '/' || c == '.' || c == 0x80); P[i] = c; }
  // a backslash is only guaranteed to survive when it is written escaped, which is what the documented
  // escaping does; the writer below escapes every special character
  char* buf = (char*)malloc(2 * n + 1); VF_ASSUME(buf != 0);
  unsigned e = 0;
  for (unsigned i = 0; i < n; i++) {
    if (P[i] == ' ' || P[i] == '#' || P[i] == '\\') { buf[e++] = '\\'; buf[e++] = (char)P[i]; }
    else if (P[i] == '$') { buf[e++] = '$'; buf[e++] = '$'; }
    else buf[e++] = (char)P[i];
  }
  bool follow = nondet_bool();                   // the word is followed by a separator or by the end of the file
  if (follow) buf[e] = ' ';
  const char* cur = buf; const char* end = buf + e + (follow ? 1 : 0);
  llvm::SmallVector<char, 32>& w = *new llvm::SmallVector<char, 32>;
  lexWord(cur, end, w);
  vf_observe(w.size()); vf_observe(cur - buf);
  VF_ASSERT(cur == buf + e, "the word ends exactly where the escaped path ends");
  VF_ASSERT(w.size() == n, "the unescaped word has the length of the original path");
  for (unsigned i = 0; i < n; i++) if (i < w.size()) VF_ASSERT((unsigned char)w[i] == P[i], "the path is recovered byte for byte");
  VF_WITNESS();
}
