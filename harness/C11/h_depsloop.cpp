// C11-D4: ShellCommand::processDiscoveredDependencies - the loop over a command's dependency files.  Every file is
// read and handed to the parser front end of the declared style, in order; the command's dependencies are accepted
// only if EVERY file could be read and parsed (a malformed file in any position fails the command).
#include "vf.h"
#include "llbuild/BuildSystem/ShellCommand.h"
#include "llbuild/BuildSystem/BuildSystem.h"
#include "llbuild/BuildSystem/BuildKey.h"
#include "llbuild/BuildSystem/BuildFile.h"
#include "llbuild/BuildSystem/BuildDescription.h"
#include "llbuild/BuildSystem/Tool.h"
#include "llbuild/Basic/ExecutionQueue.h"
#include "llbuild/Basic/FileSystem.h"
#include "llvm/Support/MemoryBuffer.h"
using namespace llbuild; using namespace llbuild::basic; using namespace llbuild::buildsystem;
#ifndef VF_NP
#define VF_NP 2
#endif
#ifndef VF_STYLE
#define VF_STYLE 1
#endif
static int g_errors = 0;
struct HDel : public BuildSystemDelegate {
  HDel() : BuildSystemDelegate("h", 0) {}
  void setFileContentsBeingParsed(StringRef) override {}
  void error(StringRef, const Token&, const Twine&) override {}
  std::unique_ptr<Tool> lookupTool(StringRef) override { return nullptr; }
  std::unique_ptr<ExecutionQueue> createExecutionQueue() override { return nullptr; }
  void hadCommandFailure() override {}
  void commandStatusChanged(Command*, CommandStatusKind) override {}
  void commandPreparing(Command*) override {}
  bool shouldCommandStart(Command*) override { return true; }
  void commandStarted(Command*) override {}
  void commandHadError(Command*, StringRef) override { g_errors++; }
  void commandHadNote(Command*, StringRef) override {}
  void commandHadWarning(Command*, StringRef) override {}
  void commandFinished(Command*, ProcessStatus) override {}
  void commandFoundDiscoveredDependency(Command*, StringRef, DiscoveredDependencyKind) override {}
  void commandCannotBuildOutputDueToMissingInputs(Command*, Node*, ArrayRef<BuildKey>) override {}
  Command* chooseCommandFromMultipleProducers(Node*, std::vector<Command*>) override { return nullptr; }
  void cannotBuildNodeDueToMultipleProducers(Node*, std::vector<Command*>) override {}
  void determinedRuleNeedsToRun(core::Rule*, core::Rule::RunReason, core::Rule*) override {}
};
struct HBuf : public llvm::MemoryBuffer { HBuf() { BufferStart = ""; BufferEnd = BufferStart; } BufferKind getBufferKind() const override { return MemoryBuffer_Malloc; } };
static bool g_open[2], g_ok[2]; static unsigned g_reads = 0, g_procs = 0; static char g_readName[2], g_procName[2]; static int g_procKind[2]; static llvm::MemoryBuffer* g_bufs[2]; static llvm::MemoryBuffer* g_procBuf[2];
struct HFS : public FileSystem {
  bool createDirectory(const std::string&) override { return false; }
  std::unique_ptr<llvm::MemoryBuffer> getFileContents(const std::string& path) override {
    unsigned i = g_reads++; if (i < 2) { g_readName[i] = path.size() == 2 ? path[1] : '?'; if (g_open[i]) { g_bufs[i] = new HBuf; return std::unique_ptr<llvm::MemoryBuffer>(g_bufs[i]); } }
    return nullptr; }
  bool remove(const std::string&) override { return false; }
  FileChecksum getFileChecksum(const std::string&) override { return FileChecksum(); }
  FileInfo getFileInfo(const std::string&) override { return FileInfo(); }
  FileInfo getLinkInfo(const std::string&) override { return FileInfo(); }
  bool createSymlink(const std::string&, const std::string&) override { return false; }
};
static HDel* g_del; static HFS* g_fs;
extern "C" BuildSystemDelegate* stub_getDelegate(BuildSystem*) { return g_del; }
extern "C" FileSystem* stub_getFileSystem(BuildSystem*) { return g_fs; }
extern "C" bool stub_is_absolute(const llvm::Twine*, int) { return true; }         // the dependency files of this harness have absolute paths
static bool proc(int kind, StringRef depsPath, llvm::MemoryBuffer* input) { unsigned i = g_procs++; if (i < 2) { g_procKind[i] = kind; g_procName[i] = depsPath.size() == 2 ? depsPath[1] : '?'; g_procBuf[i] = input; return g_ok[i]; } return false; }
// the two parser front ends (C11-D1..D3 decide them): here only their verdict matters
extern "C" bool stub_procMakefile(ShellCommand*, BuildSystem*, core::TaskInterface, QueueJobContext*, StringRef depsPath, llvm::MemoryBuffer* input, bool ignoreSubsequent) { return proc(ignoreSubsequent ? 3 : 1, depsPath, input); }
extern "C" bool stub_procDepInfo(ShellCommand*, BuildSystem*, core::TaskInterface, QueueJobContext*, StringRef depsPath, llvm::MemoryBuffer* input) { return proc(2, depsPath, input); }
extern "C" void harness_depsloop(void) {
  g_del = new HDel; g_fs = new HFS;
  BuildSystem* sys = (BuildSystem*)malloc(64);
  for (unsigned i = 0; i < 2; i++) { g_open[i] = nondet_bool(); g_ok[i] = nondet_bool(); }
  ShellCommand& cmd = *new ShellCommand("c", false);
  cmd.depsStyle = (ShellCommand::DepsStyle)VF_STYLE;
  cmd.depsPaths.push_back("/a"); if (VF_NP > 1) cmd.depsPaths.push_back("/b");
  core::TaskInterface ti(nullptr, nullptr);
  bool ok = cmd.processDiscoveredDependencies(*sys, ti, nullptr);
  vf_observe(ok); vf_observe(g_reads); vf_observe(g_procs);
#if VF_STYLE == 0
  VF_ASSERT(!ok && g_errors == 1 && g_reads == 0 && g_procs == 0, "dependency files without a declared style fail the command");
#else
  unsigned firstBad = VF_NP; for (unsigned i = VF_NP; i-- > 0;) if (!g_open[i] || !g_ok[i]) firstBad = i;
  VF_ASSERT(ok == (firstBad == VF_NP), "the dependencies are accepted exactly when every dependency file could be read and parsed: a malformed or unreadable file in any position fails the command");
  unsigned upto = firstBad == VF_NP ? VF_NP : firstBad + 1;          // the failing file itself is looked at
  VF_ASSERT(g_reads == upto, "every dependency file up to a failing one is read, once");
  for (unsigned i = 0; i < VF_NP; i++) if (i < upto) {
    VF_ASSERT(g_readName[i] == (i == 0 ? 'a' : 'b'), "the files are read in declaration order");
    if (g_open[i]) VF_ASSERT(i < g_procs && g_procKind[i] == VF_STYLE && g_procName[i] == (i == 0 ? 'a' : 'b') && g_procBuf[i] == g_bufs[i], "each file's own contents are parsed, in the declared style");
  }
  if (firstBad < VF_NP && !g_open[firstBad]) VF_ASSERT(g_errors >= 1 && g_procs == firstBad, "an unreadable dependency file is reported, not parsed");
  if (ok) VF_WITNESS_ALSO("all files accepted");
#endif
  VF_WITNESS();
}
