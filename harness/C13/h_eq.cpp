// C13-I1: FileInfo::operator== / != on two arbitrary records.
#include "vf.h"
#include "llbuild/Basic/FileInfo.h"
using namespace llbuild::basic;
static void fill(FileInfo& f) {
  f.device = nondet_u64(); f.inode = nondet_u64(); f.mode = nondet_u64(); f.size = nondet_u64();
  f.modTime.seconds = nondet_u64(); f.modTime.nanoseconds = nondet_u64();
  for (int i = 0; i < 32; i++) f.checksum.bytes[i] = nondet_u8();
}
extern "C" __attribute__((noinline)) bool vf_unit_eq(const FileInfo* a, const FileInfo* b) { return *a == *b; }
extern "C" __attribute__((noinline)) bool vf_unit_ne(const FileInfo* a, const FileInfo* b) { return *a != *b; }
extern "C" void harness_eq(void) {
  FileInfo& a = *new FileInfo; FileInfo& b = *new FileInfo;
  fill(a); fill(b);
  bool same = a.device == b.device && a.inode == b.inode && a.size == b.size &&
              a.modTime.seconds == b.modTime.seconds && a.modTime.nanoseconds == b.modTime.nanoseconds;
  for (int i = 0; i < 32; i++) if (a.checksum.bytes[i] != b.checksum.bytes[i]) same = false;
  bool eq = vf_unit_eq(&a, &b);
  vf_observe(eq);
  VF_ASSERT(eq == same, "records compare equal exactly when device, inode, size, both mtime fields and all 32 checksum bytes are equal");
  VF_ASSERT(vf_unit_ne(&a, &b) == !eq, "operator!= is the negation of operator==");
  // timestamp ordering is a strict total order consistent with equality
  FileTimestamp s = a.modTime, t = b.modTime;
  VF_ASSERT((s < t) + (t < s) + (s == t) == 1, "exactly one of <, >, == holds for two timestamps");
  VF_ASSERT((s <= t) == ((s < t) || (s == t)), "<= is < or ==");
  VF_WITNESS();
}
