// C13-I4: data flow of the content digest: the bytes FileChecksum::getChecksumForPath returns
// are the digest the hash function produced for the bytes read.
#include "vf.h"
#include "llbuild/Basic/FileInfo.h"
#include "llvm/Support/MD5.h"
#include <sys/stat.h>
#include <string>
#include <cstdio>
using namespace llbuild::basic;
static uint8_t g_digest[16]; static int g_final = 0, g_updates = 0, g_reads = 0; static int g_kind; static bool g_openOk;
static uint64_t g_fed = 0, g_read = 0;
extern "C" int vf_stat(const char* p, struct stat* buf) {
  g_kind = nondet_u8() % 3;                           // 0 missing, 1 directory, 2 regular file
  if (g_kind == 0) return -1;
  buf->st_dev = 1; buf->st_ino = 2; buf->st_size = 3; buf->st_mtim.tv_sec = 4; buf->st_mtim.tv_nsec = 5;
  buf->st_mode = g_kind == 1 ? S_IFDIR : S_IFREG;
  return 0;
}
extern "C" FILE* vf_fopen(const char* p, const char* m) { g_openOk = nondet_bool(); return g_openOk ? (FILE*)&g_reads : (FILE*)0; }
extern "C" size_t vf_fread(void* b, size_t sz, size_t n, FILE* f) {
  g_reads++;
  if (g_reads > 2) return 0;
  size_t r = nondet_u32() % 17; g_read += r; return r;   // content in chunks of arbitrary length
}
extern "C" int vf_fclose(FILE* f) { return 0; }
extern "C" void vf_md5_update(llvm::MD5* h, const char* p, size_t n) { g_updates++; g_fed += n; }
extern "C" void vf_md5_final(llvm::MD5* h, llvm::MD5::MD5Result* out) { g_final++; for (int i = 0; i < 16; i++) out->Bytes[i] = g_digest[i]; }
extern "C" void vf_md5_ctor(llvm::MD5* h) {}
extern "C" void harness_digest(void) {
  for (int i = 0; i < 16; i++) g_digest[i] = nondet_u8();
  std::string& path = *new std::string("p");
  FileChecksum sum = FileChecksum::getChecksumForPath(path);
  if (g_kind == 0) { for (int i = 0; i < 32; i++) VF_ASSERT(sum.bytes[i] == 0, "missing object: zero checksum"); }
  else if (g_kind == 1) { VF_ASSERT(sum.bytes[0] == 1, "directory marker"); for (int i = 1; i < 32; i++) VF_ASSERT(sum.bytes[i] == 0, "directory marker only"); }
  else if (!g_openOk) { for (int i = 0; i < 32; i++) VF_ASSERT(sum.bytes[i] == 0, "unreadable file: zero checksum"); }
  else {
    VF_ASSERT(g_final == 1, "digest finalised exactly once");
    VF_ASSERT(g_fed == g_read, "every byte read is fed to the hash function");
    for (int i = 0; i < 16; i++) VF_ASSERT(sum.bytes[i] == g_digest[i], "the checksum is the digest of the content");
  }
  vf_observe(sum.bytes[0]);
  VF_WITNESS();
}
