// C13-I3: device-agnostic and checksum-only wrappers over an arbitrary inner file system.
#include "vf.h"
#include "llbuild/Basic/FileSystem.h"
#include "llvm/Support/MemoryBuffer.h"
using namespace llbuild::basic;
static FileInfo g_info; static FileChecksum g_sum; static int g_infoCalls = 0, g_linkCalls = 0, g_sumCalls = 0;
struct Inner : public FileSystem {
  bool createDirectory(const std::string&) override { return false; }
  bool createDirectories(const std::string&) override { return false; }
  std::unique_ptr<llvm::MemoryBuffer> getFileContents(const std::string&) override { return nullptr; }
  bool remove(const std::string&) override { return false; }
  FileChecksum getFileChecksum(const std::string&) override { g_sumCalls++; return g_sum; }
  FileInfo getFileInfo(const std::string&) override { g_infoCalls++; return g_info; }
  FileInfo getLinkInfo(const std::string&) override { g_linkCalls++; return g_info; }
  bool createSymlink(const std::string&, const std::string&) override { return false; }
};
#ifndef VF_MODE
#define VF_MODE 0
#endif
extern "C" void harness_wrap(void) {
  g_info.device = nondet_u64(); g_info.inode = nondet_u64(); g_info.mode = nondet_u64(); g_info.size = nondet_u64();
  g_info.modTime.seconds = nondet_u64(); g_info.modTime.nanoseconds = nondet_u64();
  for (int i = 0; i < 32; i++) { g_info.checksum.bytes[i] = nondet_u8(); g_sum.bytes[i] = nondet_u8(); }
  // contract of the inner file system: a missing object has the all-zero record and the all-zero checksum
  bool innerMissing = g_info.isMissing();
  if (innerMissing) for (int i = 0; i < 32; i++) VF_ASSUME(g_info.checksum.bytes[i] == 0 && g_sum.bytes[i] == 0);
  std::string& path = *new std::string("p");
  Inner* inner = new Inner;
#if VF_MODE == 0
  FileSystem& fs = *new DeviceAgnosticFileSystem(std::unique_ptr<FileSystem>(inner));
  bool link = nondet_bool();
  FileInfo r = link ? fs.getLinkInfo(path) : fs.getFileInfo(path);
  VF_ASSERT(r.device == 0 && r.inode == 0, "device-agnostic mode ignores device and inode");
  VF_ASSERT(r.mode == g_info.mode && r.size == g_info.size && r.modTime == g_info.modTime && r.checksum == g_info.checksum, "everything else is passed through");
  VF_ASSERT((link ? g_linkCalls : g_infoCalls) == 1, "one inner query");
#else
  FileSystem& fs = *new ChecksumOnlyFileSystem(std::unique_ptr<FileSystem>(inner));
  FileInfo r = fs.getFileInfo(path);
  VF_ASSERT(r.device == 0 && r.inode == 0 && r.modTime.seconds == 0 && r.modTime.nanoseconds == 0, "checksum-only mode ignores device, inode and mtime");
  VF_ASSERT(r.mode == g_info.mode && r.size == g_info.size, "type and size are passed through");
  VF_ASSERT(r.checksum == g_sum, "the checksum is the one computed from the content");
  VF_ASSERT(g_infoCalls == 1 && g_sumCalls == 1, "one info and one checksum query");
#endif
  if (innerMissing) VF_ASSERT(r.isMissing(), "missing stays missing");
  vf_observe(r.isMissing());
  VF_WITNESS();
}
