// C13-I2: FileInfo::getInfoForPath with stat/lstat replaced by an arbitrary environment.
#include "vf.h"
#include "llbuild/Basic/FileInfo.h"
#include <sys/stat.h>
#include <string>
using namespace llbuild::basic;
static struct stat g_st; static int g_rc; static int g_statCalls = 0, g_lstatCalls = 0;
static void env(struct stat* buf) {
  g_st.st_dev = nondet_u64(); g_st.st_ino = nondet_u64(); g_st.st_mode = nondet_u32(); g_st.st_size = (off_t)nondet_u64();
  g_st.st_mtim.tv_sec = (time_t)nondet_u64(); g_st.st_mtim.tv_nsec = (long)nondet_u64();
  g_rc = nondet_bool() ? 0 : -1;
  if (g_rc == 0) *buf = g_st;
}
extern "C" int vf_stat(const char* p, struct stat* buf) { g_statCalls++; env(buf); return g_rc; }
extern "C" int vf_lstat(const char* p, struct stat* buf) { g_lstatCalls++; env(buf); return g_rc; }
extern "C" void harness_stat(void) {
  bool asLink = nondet_bool();
  std::string& path = *new std::string("p");
  FileInfo info = FileInfo::getInfoForPath(path, asLink);
  VF_ASSERT(g_statCalls + g_lstatCalls == 1 && (asLink ? g_lstatCalls == 1 : g_statCalls == 1), "exactly one stat, lstat iff asLink");
  if (g_rc != 0) {
    VF_ASSERT(info.isMissing(), "a failed stat yields the missing record");
    bool allZero = info.device == 0 && info.inode == 0 && info.mode == 0 && info.size == 0 && info.modTime.seconds == 0 && info.modTime.nanoseconds == 0;
    for (int i = 0; i < 32; i++) if (info.checksum.bytes[i]) allZero = false;
    VF_ASSERT(allZero, "the missing record is all zero");
  } else {
    VF_ASSERT(!info.isMissing(), "the missing record is never produced for an existing object");
    VF_ASSERT(info.device == (uint64_t)g_st.st_dev && info.inode == (uint64_t)g_st.st_ino && info.mode == (uint64_t)g_st.st_mode && info.size == (uint64_t)g_st.st_size &&
              info.modTime.seconds == (uint64_t)g_st.st_mtim.tv_sec, "device, inode, mode, size and mtime seconds are those stat reported");
    bool sentinel = g_st.st_dev == 0 && g_st.st_ino == 0 && g_st.st_mode == 0 && g_st.st_size == 0 && g_st.st_mtim.tv_sec == 0 && g_st.st_mtim.tv_nsec == 0;
    VF_ASSERT(sentinel || info.modTime.nanoseconds == (uint64_t)g_st.st_mtim.tv_nsec, "mtime nanoseconds are those stat reported");
    for (int i = 0; i < 32; i++) VF_ASSERT(info.checksum.bytes[i] == 0, "no checksum in default mode");
    VF_ASSERT(info.isDirectory() == ((g_st.st_mode & S_IFDIR) != 0), "directory bit");
  }
  vf_observe(info.isMissing());
  VF_WITNESS();
}
