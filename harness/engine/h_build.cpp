// C01-O8 / C04-T1,T2 / C05-X3: BuildEngineImpl::build() around an arbitrary executeTasks outcome, with a
// recording database; attachDB.
#include "eng.h"
#include "db.h"
static BuildEngineImpl* g_impl; static RuleInfo* g_R; static int g_execCalls = 0; static uint64_t g_epochAtExec = 0; static int g_dbAtExec = 0; static bool g_execOk; static int g_nwrites;
extern "C" RuleInfo* stub_getRuleInfoForKeyType(BuildEngineImpl* impl, const KeyType* key) { return g_R; }
extern "C" bool stub_executeTasks(BuildEngineImpl* impl, const KeyType* key) {
  g_execCalls++; g_epochAtExec = impl->currentEpoch; g_dbAtExec = g_ndb;
  // contract of executeTasks (O6/O7): results it persists are stamped with the current epoch
  for (int i = 0; i < g_nwrites; i++) { std::string err; impl->db->setRuleResult(g_R->keyID, *g_R->rule, g_R->result, &err); }
  if (g_execOk) { g_R->state = RuleInfo::StateKind::Complete; g_R->result.builtAt = impl->currentEpoch; }
  return g_execOk;
}
extern "C" void harness_build(void) {
  uint64_t E0 = nondet_u64(); VF_ASSUME(E0 < (1ull << 62));
  BuildEngineImpl* impl = newEngine(E0); g_impl = impl;
  bool withDB = nondet_bool();
  if (withDB) impl->db.reset(new HDB);
  g_dbFail[3] = nondet_bool(); g_dbFail[1] = nondet_bool();
  bool cancelled = nondet_bool(); impl->buildCancelled = cancelled;
  g_execOk = nondet_bool(); g_nwrites = withDB ? (int)(nondet_u8() % 3) : 0;
  RuleInfo& R = newRuleInfo(16, 0); g_R = &R; uint8_t val = nondet_u8(); R.result.value.reserve(2); R.result.value.push_back(val); R.result.builtAt = E0;
  const ValueType& out = impl->build(KeyType("r"));
  vf_observe(out.size()); vf_observe(g_ndb);
  VF_ASSERT(!impl->buildRunning, "the engine is no longer marked running");
  bool startFailed = withDB && g_dbFail[3];
  if (startFailed) {
    VF_ASSERT(out.empty() && g_execCalls == 0 && impl->currentEpoch == E0 && g_errors == 1, "database not available (locked): failure, nothing runs, epoch unchanged");
    VF_ASSERT(g_ndb == 1 && g_db[0] == DB_STARTED, "nothing else touches the database");
  } else if (cancelled) {
    VF_ASSERT(out.empty() && g_execCalls == 0 && impl->currentEpoch == E0, "already cancelled: failure, nothing runs, epoch unchanged");
    if (withDB) VF_ASSERT(g_ndb == 2 && g_db[0] == DB_STARTED && g_db[1] == DB_COMPLETE, "the transaction is opened and closed");
  } else {
    VF_ASSERT(g_execCalls == 1 && g_epochAtExec == E0 + 1 && impl->currentEpoch == E0 + 1, "the epoch is advanced exactly once, before any rule is touched");
    if (withDB) {
      VF_ASSERT(g_dbAtExec == 1 && g_db[0] == DB_STARTED, "the transaction is opened before the tasks run");
      int n = g_ndb;
      VF_ASSERT(n == 1 + g_nwrites + 2, "after the tasks: exactly the epoch write and the commit");
      VF_ASSERT(g_db[n - 2] == DB_SETITER && g_dbArg[n - 2] == E0 + 1, "the current epoch is stored after all results of this build, whether or not the build succeeded");
      VF_ASSERT(g_db[n - 1] == DB_COMPLETE, "the transaction is closed last, on every path");
      for (int i = 1; i <= g_nwrites; i++) VF_ASSERT(g_db[i] == DB_SETRESULT, "results are written inside the transaction");
    }
    bool ok = g_execOk && !(withDB && g_dbFail[1]);
    if (ok) VF_ASSERT(out.size() == 1 && out[0] == val && &out == &R.result.value, "success: the value of the requested key is returned");
    else VF_ASSERT(out.empty(), "failure (tasks failed, cancelled, or the epoch could not be stored): the empty value is returned");
  }
  VF_WITNESS();
}
extern "C" void harness_attach(void) {
  BuildEngineImpl* impl = newEngine(0);
  g_dbEpoch = nondet_u64(); g_dbFail[0] = nondet_bool();
  std::string err;
  bool ok = impl->attachDB(std::unique_ptr<BuildDB>(new HDB), &err);
  VF_ASSERT(ok == !g_dbFail[0], "attachDB reports whether the stored epoch could be read");
  VF_ASSERT(impl->currentEpoch == g_dbEpoch && g_ndb == 1 && g_db[0] == DB_GETEPOCH, "the engine continues from the stored epoch");
  VF_WITNESS();
}
