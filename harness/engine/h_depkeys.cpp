// C01-O9: DependencyKeyIDs is a faithful SEQUENCE of (key, order-only, single-use) tuples: what the engine records while a
// task requests inputs (push_back), what the database reads back (resize + set), what discovered dependencies add (append)
// and what a scan drops (cleanSingleUseDependencies) - no entry merged, dropped, reordered or given another entry's flags.
#include "vf.h"
#include "llbuild/Core/BuildEngine.h"
#include "llbuild/Core/DependencyKeyIDs.h"
using namespace llbuild::core;
#ifndef VF_N
#define VF_N 2
#endif
#ifndef VF_PART
#define VF_PART 0
#endif
#ifndef VF_M
#define VF_M 1
#endif
extern "C" void harness_depkeys(void) {
  uint64_t k[VF_N + VF_M]; bool oo[VF_N + VF_M], su[VF_N + VF_M];
  for (unsigned i = 0; i < VF_N + VF_M; i++) { k[i] = nondet_u64(); oo[i] = nondet_bool(); su[i] = nondet_bool(); }      // keys may repeat: the same input can be requested twice with different flags
  DependencyKeyIDs& d = *new DependencyKeyIDs; d.keys.reserve(8); d.flags.reserve(8);
  for (unsigned i = 0; i < VF_N; i++) { KeyID id; id._value = k[i]; d.push_back(id, oo[i], su[i]); }
  vf_observe(d.size());
  VF_ASSERT(d.size() == VF_N && d.empty() == (VF_N == 0), "every requested input is recorded, once per request");
  for (unsigned i = 0; i < VF_N; i++) { auto e = d[i]; VF_ASSERT(e.keyID._value == k[i] && e.orderOnly == oo[i] && e.singleUse == su[i], "entries are recorded in request order with their own key and flags"); }
  unsigned n = 0; for (auto e : d) { VF_ASSERT(n < VF_N && e.keyID._value == k[n] && e.orderOnly == oo[n] && e.singleUse == su[n], "iteration visits the entries in order"); n++; }
  VF_ASSERT(n == VF_N, "iteration visits every entry");
#if VF_PART == 0
  VF_WITNESS(); return;          // (one aspect per query: a defect in push_back must not drown the later parts in symbolic lengths)
#endif
  // discovered dependencies are appended after the requested ones
  DependencyKeyIDs& r = *new DependencyKeyIDs; r.keys.reserve(4); r.flags.reserve(4);
  for (unsigned i = 0; i < VF_M; i++) { KeyID id; id._value = k[VF_N + i]; r.push_back(id, oo[VF_N + i], su[VF_N + i]); }
  d.append(r);
  VF_ASSERT(d.size() == VF_N + VF_M, "appending keeps every entry of both lists");
  for (unsigned i = 0; i < VF_N + VF_M; i++) { auto e = d[i]; VF_ASSERT(e.keyID._value == k[i] && e.orderOnly == oo[i] && e.singleUse == su[i], "appended entries follow the existing ones, unchanged"); }
#if VF_PART == 1
  VF_WITNESS(); return;
#endif
  // the database read-back path: resize, then set by index
  DependencyKeyIDs& s = *new DependencyKeyIDs; s.keys.reserve(8); s.flags.reserve(8);
  s.resize(VF_N + VF_M);
  for (unsigned i = 0; i < VF_N + VF_M; i++) { KeyID id; id._value = k[i]; s.set(i, id, oo[i], su[i]); }
  VF_ASSERT(s.size() == VF_N + VF_M, "a list read back has the stored length");
  for (unsigned i = 0; i < VF_N + VF_M; i++) { auto e = s[i]; VF_ASSERT(e.keyID._value == k[i] && e.orderOnly == oo[i] && e.singleUse == su[i], "set(i) stores entry i and nothing else"); }
#if VF_PART == 2
  VF_WITNESS(); return;
#endif
  // a scan drops exactly the single-use entries
  d.cleanSingleUseDependencies();
  unsigned w = 0;
  for (unsigned i = 0; i < VF_N + VF_M; i++) if (!su[i]) { VF_ASSERT(w < d.size(), "entries that are not single-use survive"); auto e = d[w]; VF_ASSERT(e.keyID._value == k[i] && e.orderOnly == oo[i] && !e.singleUse, "...in order, with their own flags"); w++; }
  VF_ASSERT(d.size() == w, "every single-use entry is dropped");
  VF_WITNESS();
}
