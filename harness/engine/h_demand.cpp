// C01-O3 / C02 / C06-P1: demandRule from every scanned state.
#include "eng.h"
static RuleInfo* g_dep;
extern "C" RuleInfo* stub_getRuleInfoForKeyType(BuildEngineImpl* impl, const KeyType* key) { return g_dep; }
extern "C" void harness_demand(void) {
  uint64_t E = nondet_u64(); VF_ASSUME(E >= 1);
  BuildEngineImpl* impl = newEngine(E);
  uint64_t ruleSig = nondet_u64();
  RuleInfo& ri = newRuleInfo(16, ruleSig);
  uint64_t B = nondet_u64(), C = nondet_u64(); VF_ASSUME(C <= B && B <= E);
  ri.result.builtAt = B; ri.result.computedAt = C; ri.result.signature = CommandSignature(nondet_u64());
  uint8_t oldVal = nondet_u8(); ri.result.value.reserve(2); ri.result.value.push_back(oldVal);
  ri.result.dependencies.keys.reserve(3); ri.result.dependencies.flags.reserve(3);
  KeyID dk; dk._value = 32; ri.result.dependencies.push_back(dk, nondet_bool(), false);
  uint8_t st = nondet_u8(); VF_ASSUME(st == 2 || st == 3 || st == 4 || st == 5 || st == 6);
  ri.state = (RuleInfo::StateKind)st;
  if (st == 6) VF_ASSUME(B == E);                       // Complete and scanned means complete in this build
  if (st == 2 || st == 3) VF_ASSUME(B < E);             // a scan decision is only made for a rule not yet complete in this build
  TaskInfo* pre = nullptr;
  if (st == 4 || st == 5) { pre = new TaskInfo(new HTask); pre->forRuleInfo = &ri; ri.setPendingTaskInfo(pre); }
  HTask* T = new HTask; g_nextTask = T; T->requestInPrior = nondet_bool(); g_dep = &newRuleInfo(48, 0);
  uint64_t sig0 = ri.result.signature.value;
  bool r = impl->demandRule(ri);
  vf_observe(r); vf_observe((uint64_t)ri.state);
  if (st == 6) { VF_ASSERT(r && g_createTask == 0 && (int)ri.state == 6 && ri.result.builtAt == E && T->nev == 0, "complete in this build: available, no effect"); }
  else if (st == 4 || st == 5) { VF_ASSERT(!r && g_createTask == 0 && (int)ri.state == st && ri.getPendingTaskInfo() == pre && T->nev == 0, "in progress: not available, no effect (never a second task)"); }
  else if (st == 3) {
    VF_ASSERT(r && g_createTask == 0 && (int)ri.state == 6 && ri.result.builtAt == E, "does not need to run: marked complete for this build without executing");
    VF_ASSERT(ri.result.computedAt == C && ri.result.value.size() == 1 && ri.result.value[0] == oldVal && ri.result.signature.value == sig0 && ri.result.dependencies.size() == 1, "value, computedAt, signature and dependencies untouched");
    VF_ASSERT(g_status[(int)Rule::StatusKind::IsUpToDate] == 1, "reported up to date");
  } else {
    VF_ASSERT(!r && g_createTask == 1 && (int)ri.state == 4, "needs to run: exactly one task is created, rule waits for inputs");
    VF_ASSERT(impl->taskInfos.size() == 1 && ri.getPendingTaskInfo()->task.get() == T && ri.getPendingTaskInfo()->forRuleInfo == &ri, "the task is registered for this rule");
    VF_ASSERT(ri.result.dependencies.size() == 0, "the recorded dependencies are cleared (they are re-recorded as requested)");
    VF_ASSERT(ri.result.builtAt == B && ri.result.computedAt == C && ri.result.value[0] == oldVal, "epochs and value are not touched by starting the task");
    bool prior = B != 0 && sig0 == ruleSig;
    VF_ASSERT(T->nev == (prior ? 2 : 1) && T->ev[0] == EV_START, "start is the first callback, exactly once");
    if (prior) VF_ASSERT(T->ev[1] == EV_PRIOR && T->evVal[1] == oldVal, "the prior value follows start iff the rule was built before with the same signature");
    bool requested = prior && T->requestInPrior;
    if (!requested) VF_ASSERT(impl->readyTaskInfos.size() == 1 && impl->readyTaskInfos.front() == ri.getPendingTaskInfo() && ri.getPendingTaskInfo()->waitCount == 0, "a task without requests is ready at once, queued once");
    else VF_ASSERT(impl->readyTaskInfos.empty() && ri.getPendingTaskInfo()->waitCount == 1 && impl->inputRequests.size() == 1 && impl->inputRequests.front().taskInfo == ri.getPendingTaskInfo() && impl->inputRequests.front().inputID == 3,
                   "a task that asked for an input (also while receiving its prior value) is not ready: inputs-available must wait for that input");
  }
  VF_WITNESS();
}
