// C05-X1/X2: cancelRemainingTasks from a state with two computing tasks (any subset already
// reported), one task still waiting for inputs and one rule being scanned.  The wait() stub is the
// environment: one of the still-computing tasks reports through the real taskIsComplete.
#include "eng.h"
#ifndef VF_NEXT
#define VF_NEXT 0
#endif
static BuildEngineImpl* g_impl; static HTask* g_T[2]; static RuleInfo* g_R[2]; static bool g_reported[2]; static int g_waits = 0; static int g_dbWrites = 0;
static void report(int i) { g_reported[i] = true; ValueType v; v.reserve(2); v.push_back(nondet_u8()); g_impl->taskIsComplete(g_T[i], std::move(v), nondet_bool()); }
// sequential harness: mutexes are no-ops in both the CBMC and the native build (the wait stub runs the
// other thread's step on this thread, with the engine's lock nominally held)
extern "C" int stub_mutex_lock(void* m) { return 0; }
extern "C" int stub_mutex_unlock(void* m) { return 0; }
extern "C" void stub_cv_wait(void* cv, void* lock) {
  g_waits++;
  VF_ASSERT(g_impl->finishedTaskInfos.empty(), "cancellation never blocks while a completion is queued (lost wake-up)");
  VF_ASSERT(!(g_reported[0] && g_reported[1]), "cancellation never waits when every computing task has already reported (hang)");
  if ((g_reported[0] && g_reported[1]) || !g_impl->finishedTaskInfos.empty()) VF_STOP();
  // one still-computing task reports now (which one is arbitrary); possibly both at once
  bool pick1 = g_reported[0] ? true : (g_reported[1] ? false : nondet_bool());
  report(pick1 ? 1 : 0);
  if (!g_reported[0] && nondet_bool()) report(0);
  if (!g_reported[1] && nondet_bool()) report(1);
}
extern "C" void harness_cancel(void) {
  uint64_t E = nondet_u64(); VF_ASSUME(E >= 2 && E < (1ull << 62));
  BuildEngineImpl* impl = newEngine(E); g_impl = impl;
  impl->finishedTaskInfos.reserve(4); impl->ruleInfosToScan.reserve(4); impl->finishedInputRequests.reserve(4);
  uint64_t B[3], C[3];
  // two computing tasks
  for (int i = 0; i < 2; i++) {
    RuleInfo& R = newRuleInfo(16 + 16 * i, nondet_u64()); g_R[i] = &R;
    B[i] = nondet_u64(); C[i] = nondet_u64(); VF_ASSUME(C[i] <= B[i] && B[i] < E); R.result.builtAt = B[i]; R.result.computedAt = C[i]; R.result.value.reserve(2); R.result.value.push_back(nondet_u8());
    HTask* T = new HTask; g_T[i] = T;
    auto res = impl->taskInfos.emplace(T, TaskInfo(T)); TaskInfo* ti = &res.first->second; ti->forRuleInfo = &R;
    R.state = RuleInfo::StateKind::InProgressComputing; R.setPendingTaskInfo(ti);
  }
  impl->numOutstandingUnfinishedTasks = 2;
  // a third task still waiting for an input (not counted as outstanding)
  RuleInfo& W = newRuleInfo(64, 0); B[2] = nondet_u64(); C[2] = nondet_u64(); VF_ASSUME(C[2] <= B[2] && B[2] < E); W.result.builtAt = B[2]; W.result.computedAt = C[2];
  HTask* TW = new HTask; auto resw = impl->taskInfos.emplace(TW, TaskInfo(TW)); TaskInfo* tw = &resw.first->second; tw->forRuleInfo = &W; tw->waitCount = 1;
  W.state = RuleInfo::StateKind::InProgressWaiting; W.setPendingTaskInfo(tw);
  // a rule that is being scanned, registered in the rule table
  KeyID ks; ks._value = 80;
  auto rs = impl->ruleInfos.emplace(ks, RuleInfo(ks, std::unique_ptr<Rule>(new HRule(KeyType("s"), CommandSignature(0)))));
  RuleInfo& S = rs.first->second; S.state = RuleInfo::StateKind::IsScanning; S.setPendingScanRecord(new BuildEngineImpl::RuleScanRecord);
  uint64_t BS = nondet_u64(); S.result.builtAt = BS; VF_ASSUME(BS < E);
  impl->ruleInfosToScan.push_back(scanRequest(&S, 0, nullptr, false));
  impl->inputRequests.push_back({ tw, 1, g_R[0], false, false, false });
  // any subset of the computing tasks has already reported when cancellation starts
  if (nondet_bool()) report(0);
  if (nondet_bool()) report(1);
  int eventsBefore = g_T[0]->nev + g_T[1]->nev + TW->nev;
  impl->cancelRemainingTasks();
  vf_observe(g_waits);
  VF_ASSERT(g_reported[0] && g_reported[1], "cancellation returns only after every task that was computing has reported");
  VF_ASSERT(impl->numOutstandingUnfinishedTasks == 0, "no task is outstanding afterwards");
  VF_ASSERT(impl->taskInfos.empty() && impl->ruleInfosToScan.empty() && impl->inputRequests.empty() && impl->finishedInputRequests.empty() && impl->readyTaskInfos.empty() && impl->finishedTaskInfos.empty(),
            "all queues and the task table are empty");
  VF_ASSERT(!g_R[0]->isInProgress() && !g_R[1]->isInProgress() && !W.isInProgress() && !S.isScanning(), "no rule is left in progress or scanning");
  VF_ASSERT(g_R[0]->result.builtAt != E && g_R[1]->result.builtAt != E && W.result.builtAt != E && S.result.builtAt == BS, "no result is marked as built in the cancelled build (a rule that was only being scanned keeps its record)");
  VF_ASSERT(!g_R[0]->isComplete(impl) && !g_R[1]->isComplete(impl) && !W.isComplete(impl), "no cancelled rule counts as complete");
  VF_ASSERT(g_createTask == 0 && g_status[(int)Rule::StatusKind::IsComplete] == 0, "cancellation runs nothing and completes nothing");
#if VF_NEXT == 2
  // X5: the NEXT build runs every rule whose task was cancelled: such a rule's dependency list was cleared when its task started, so its old
  // value must not be judged up to date by whatever part of the list had been re-recorded (here: nothing) - whatever the rule says about validity
  impl->currentEpoch = E + 1;
  for (int i = 0; i < 3; i++) {
    RuleInfo& X = i < 2 ? *g_R[i] : W;
    X.result.signature = X.rule->signature;
    bool r = impl->scanRule(X);
    VF_ASSERT(r && (int)X.state == 2, "a rule whose task was cancelled is run again by the next build");
  }
#elif VF_NEXT
  // X4: the NEXT build judges a rule that was merely being scanned when the build was cancelled exactly as scanRule judges any rule
  // with that stored result (C01-O1's table): the cancelled build leaves no trace that makes it run (or not run) for another reason.
  impl->currentEpoch = E + 1;
  S.result.signature = CommandSignature(0);           // same signature as the rule's
  int reasons0 = g_reasonCount, valid0 = g_validCalls;
  bool r = impl->scanRule(S);
  if (BS == 0) VF_ASSERT(r && (int)S.state == 2 && g_reason == (int)Rule::RunReason::NeverBuilt && g_reasonCount == reasons0 + 1, "never built => runs, reported as NeverBuilt");
  else {
    VF_ASSERT(g_validCalls == valid0 + 1, "its stored result is judged by asking the rule, once");
    if (!g_validResult) VF_ASSERT(r && (int)S.state == 2 && g_reason == (int)Rule::RunReason::InvalidValue && g_reasonCount == reasons0 + 1, "invalid value => runs, reported as InvalidValue");
    else VF_ASSERT(r && (int)S.state == 3 && g_reasonCount == reasons0, "a valid stored result without dependencies => does not run, nothing reported (no re-execution just because an earlier build was cancelled)");
  }
#endif
  VF_WITNESS();
}
