// C02: a scan request that was parked and is resumed keeps its position and order-only flag.
#include "eng.h"
static RuleInfo* g_input; static int g_nscan = 0, g_ndemand = 0;
extern "C" RuleInfo* stub_getRuleInfoForKey(BuildEngineImpl* impl, uint64_t keyid) { VF_ASSERT(keyid == 32, "only the recorded dependency key is looked up"); return g_input; }
extern "C" bool stub_scanRule(BuildEngineImpl* impl, RuleInfo* r) { VF_ASSERT(r == g_input, "scan of the dependency"); g_nscan++; return true; }
extern "C" bool stub_demandRule(BuildEngineImpl* impl, RuleInfo* r) { VF_ASSERT(r == g_input, "demand of the dependency"); g_ndemand++; return true; }
extern "C" void harness_resume(void) {
  uint64_t E = nondet_u64(); VF_ASSUME(E >= 2);
  BuildEngineImpl* impl = newEngine(E);
  impl->freeRuleScanRecords.reserve(4); impl->freeRuleScanRecords.push_back(new BuildEngineImpl::RuleScanRecord); impl->ruleInfosToScan.reserve(4);
  RuleInfo& in = newRuleInfo(32, 0); g_input = &in;
  in.state = RuleInfo::StateKind::Complete; in.result.builtAt = E; in.result.computedAt = nondet_u64(); VF_ASSUME(in.result.computedAt >= 1 && in.result.computedAt <= E);
  RuleInfo& ri = newRuleInfo(16, 0);
  uint64_t B = nondet_u64(); VF_ASSUME(B >= 1 && B < E); ri.result.builtAt = B; ri.result.computedAt = B;
  bool oo = nondet_bool();
  ri.result.dependencies.keys.reserve(2); ri.result.dependencies.flags.reserve(2);
  KeyID dk; dk._value = 32; ri.result.dependencies.push_back(dk, oo, false);
  ri.state = RuleInfo::StateKind::IsScanning; ri.setPendingScanRecord(impl->newRuleScanRecord());
  // the request as it was parked by an earlier processRuleScanRequest (obligation O2 shows what is parked)
  BuildEngineImpl::RuleScanRequest req = scanRequest(&ri, 0, &in, oo);
  impl->processRuleScanRequest(req);
  bool changed = !oo && in.result.computedAt > B;
  VF_ASSERT(ri.state == (changed ? RuleInfo::StateKind::NeedsToRun : RuleInfo::StateKind::DoesNotNeedToRun), "a resumed scan decides exactly as an uninterrupted one: order-only inputs never trigger");
  VF_ASSERT(g_reasonCount == (changed ? 1 : 0), "a reason is reported only for a changed non-order-only input");
  VF_WITNESS();
}
