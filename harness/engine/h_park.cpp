// C01-O4b / C07: input requests for a rule that is still being scanned are PARKED on that rule's scan record - every request,
// also two requests of the same task for the same key (they carry different input ids and each counts in the wait count) -
// in arrival order, untouched; nothing is delivered, recorded or started for them yet.  The scenario ends where the engine
// has nothing else to do (it asks for cycle resolution: the scan itself is not driven here).
#include "eng.h"
static BuildEngineImpl* g_impl; static RuleInfo* g_R; static RuleInfo* g_I; static HTask* g_T; static TaskInfo* g_ti; static BuildEngineImpl::RuleScanRecord* g_rec; static int g_scans = 0;
extern "C" RuleInfo* stub_getRuleInfoForKeyType(BuildEngineImpl* impl, const KeyType* key) { return g_R; }
extern "C" RuleInfo* stub_getRuleInfoForKey(BuildEngineImpl* impl, uint64_t keyid) { VF_ASSERT(false, "harness: no key-id lookup expected"); VF_STOP(); return g_I; }
extern "C" bool stub_scanRule(BuildEngineImpl* impl, RuleInfo* r) { g_scans++; return r != g_I; }      // contract O1: I has recorded dependencies, its scan is under way
extern "C" bool stub_demandRule(BuildEngineImpl* impl, RuleInfo* r) { VF_ASSERT(r != g_I, "a rule whose scan is not finished is not demanded"); return r->isComplete(impl); }
extern "C" void stub_cancelRemainingTasks(BuildEngineImpl* impl) { VF_ASSERT(false, "no cancellation expected"); VF_STOP(); }
extern "C" int stub_mutex_lock(void* m) { return 0; }
extern "C" void stub_cv_wait(void* cv, void* lock) { VF_ASSERT(false, "nothing is computing: the engine must not wait"); VF_STOP(); }
#ifndef VF_NREQ
#define VF_NREQ 2
#endif
static uintptr_t g_id[2]; static bool g_oo[2], g_su[2];
extern "C" bool stub_resolveCycle(BuildEngineImpl* impl, const KeyType* key) {
  // the engine has processed its queues
  VF_ASSERT(g_rec->pausedInputRequests.size() == VF_NREQ, "every request for a rule under scan is parked on its scan record - one entry per request");
  for (unsigned i = 0; i < VF_NREQ && i < g_rec->pausedInputRequests.size(); i++) {
    const auto& q = g_rec->pausedInputRequests[i];
    VF_ASSERT(q.taskInfo == g_ti && q.inputRuleInfo == g_I && q.inputID == g_id[i] && q.orderOnly == g_oo[i] && q.singleUse == g_su[i], "parked requests keep their task, input id and flags, in arrival order");
  }
  VF_ASSERT(g_ti->waitCount == VF_NREQ && g_T->nev == 0, "the requesting task still waits for every one of them; nothing was delivered");
  VF_ASSERT(g_R->result.dependencies.size() == 0 && impl->inputRequests.empty() && impl->finishedInputRequests.empty() && impl->readyTaskInfos.empty(), "no dependency is recorded and nothing is queued for a parked request");
  VF_ASSERT(g_I->isScanning() && g_createTask == 0, "the rule under scan is neither started nor finished by the request");
  VF_WITNESS();
  VF_STOP(); return false;
}
extern "C" void harness_park(void) {
  uint64_t E = nondet_u64(); VF_ASSUME(E >= 2 && E < (1ull << 62));
  BuildEngineImpl* impl = newEngine(E); g_impl = impl;
  RuleInfo& I = newRuleInfo(32, 0); g_I = &I; I.state = RuleInfo::StateKind::IsScanning; g_rec = new BuildEngineImpl::RuleScanRecord; I.setPendingScanRecord(g_rec);
  g_rec->pausedInputRequests.reserve(4); g_rec->deferredScanRequests.reserve(4);
  I.result.builtAt = nondet_u64(); VF_ASSUME(I.result.builtAt >= 1 && I.result.builtAt < E);
  RuleInfo& R = newRuleInfo(16, nondet_u64()); g_R = &R;
  HTask* T = new HTask; g_T = T;
  auto res = impl->taskInfos.emplace(T, TaskInfo(T)); g_ti = &res.first->second; g_ti->forRuleInfo = &R;
  R.state = RuleInfo::StateKind::InProgressWaiting; R.setPendingTaskInfo(g_ti);
  g_ti->waitCount = VF_NREQ;
  for (unsigned i = 0; i < VF_NREQ; i++) { g_oo[i] = nondet_bool(); g_su[i] = nondet_bool(); VF_ASSUME(!(g_oo[i] && g_su[i])); g_id[i] = g_oo[i] ? ~(uintptr_t)0 : 7 + i;
                                           impl->inputRequests.push_back({ g_ti, g_id[i], &I, g_oo[i], false, g_su[i] }); }
  impl->ruleInfosToScan.reserve(4); impl->finishedInputRequests.reserve(4); impl->finishedTaskInfos.reserve(4);
  R.result.dependencies.keys.reserve(4); R.result.dependencies.flags.reserve(4);
  bool ok = impl->executeTasks(KeyType("root"));
  VF_ASSERT(false, "harness: the scenario ends in the cycle-resolution stub");
}
