// C06-P2 / C01-O6: two tasks have reported completion; both orders of their completions in the
// finished queue are checked (one query each).  Each rule must end complete with exactly what ITS completion recorded,
// whatever the order (no cross-talk between the two records).
#include "eng.h"
#ifndef VF_ORDER
#define VF_ORDER 0
#endif
static BuildEngineImpl* g_impl; static RuleInfo* g_R[2];
extern "C" RuleInfo* stub_getRuleInfoForKeyType(BuildEngineImpl* impl, const KeyType* key) { return g_R[0]; }
extern "C" RuleInfo* stub_getRuleInfoForKey(BuildEngineImpl* impl, uint64_t keyid) { VF_ASSERT(false, "harness: no key-id lookup expected"); VF_STOP(); return g_R[0]; }
extern "C" bool stub_scanRule(BuildEngineImpl* impl, RuleInfo* r) { return true; }
extern "C" bool stub_demandRule(BuildEngineImpl* impl, RuleInfo* r) { return r->isComplete(impl); }
extern "C" bool stub_resolveCycle(BuildEngineImpl* impl, const KeyType* key) { VF_ASSERT(false, "no cycle resolution expected"); VF_STOP(); return false; }
extern "C" void stub_cancelRemainingTasks(BuildEngineImpl* impl) { VF_ASSERT(false, "no cancellation expected"); VF_STOP(); }
extern "C" int stub_mutex_lock(void* m) { return 0; }
extern "C" void stub_cv_wait(void* cv, void* lock) { VF_ASSERT(false, "nothing to wait for: both tasks have reported"); VF_STOP(); }
extern "C" void harness_two(void) {
  uint64_t E = nondet_u64(); VF_ASSUME(E >= 2 && E < (1ull << 62));
  BuildEngineImpl* impl = newEngine(E); g_impl = impl;
  impl->ruleInfosToScan.reserve(4); impl->finishedInputRequests.reserve(4); impl->finishedTaskInfos.reserve(4);
  HTask* T[2]; uint64_t B[2], C[2]; uint8_t oldV[2], newV[2]; bool force[2];
  for (int i = 0; i < 2; i++) {
    RuleInfo& R = newRuleInfo(16 + 16 * i, nondet_u64()); g_R[i] = &R;
    B[i] = nondet_u64(); C[i] = nondet_u64(); VF_ASSUME(C[i] <= B[i] && B[i] < E); R.result.builtAt = B[i]; R.result.computedAt = C[i];
    oldV[i] = nondet_u8(); R.result.value.reserve(2); R.result.value.push_back(oldV[i]);
    T[i] = new HTask; auto res = impl->taskInfos.emplace(T[i], TaskInfo(T[i])); TaskInfo* ti = &res.first->second; ti->forRuleInfo = &R;
    R.state = RuleInfo::StateKind::InProgressComputing; R.setPendingTaskInfo(ti);
    ti->requestedBy.reserve(2); ti->deferredScanRequests.reserve(2);
  }
  impl->numOutstandingUnfinishedTasks = 2;
  const bool firstIs1 = VF_ORDER;     // arrival order of the two completions: one query per order (pointers into the task table stay concrete)
  for (int k = 0; k < 2; k++) {
    int i = (k == 0) == firstIs1 ? 1 : 0;
    newV[i] = nondet_u8(); force[i] = nondet_bool();
    ValueType v; v.reserve(2); v.push_back(newV[i]); impl->taskIsComplete(T[i], std::move(v), force[i]);
  }
  bool ok = impl->executeTasks(KeyType("r"));
  vf_observe(ok);
  VF_ASSERT(ok, "the pass succeeds");
  for (int i = 0; i < 2; i++) {
    bool changed = force[i] || newV[i] != oldV[i];
    VF_ASSERT(g_R[i]->state == RuleInfo::StateKind::Complete && g_R[i]->result.builtAt == E, "each rule is complete in this build, whatever the arrival order");
    VF_ASSERT(g_R[i]->result.value.size() == 1 && g_R[i]->result.value[0] == (changed ? newV[i] : oldV[i]), "each rule holds the value its own task produced");
    VF_ASSERT(changed ? g_R[i]->result.computedAt == E : g_R[i]->result.computedAt == C[i], "each rule's computedAt advances iff its own value changed");
    VF_ASSERT(T[i]->nev == 0, "no further task callback after completion");
  }
  VF_ASSERT(impl->taskInfos.empty() && impl->numOutstandingUnfinishedTasks == 0 && impl->finishedTaskInfos.empty(), "both tasks are retired; nothing is outstanding");
  VF_ASSERT(g_status[(int)Rule::StatusKind::IsComplete] == 2, "completion is reported once per rule");
  VF_WITNESS();
}
