// Recording BuildDB used by the engine harnesses: every call is logged with the engine state it saw.
#pragma once
namespace {
enum DbEv { DB_STARTED = 1, DB_COMPLETE, DB_SETITER, DB_SETRESULT, DB_LOOKUP, DB_GETEPOCH };
static int g_db[12]; static uint64_t g_dbArg[12]; static int g_ndb = 0; static bool g_dbFail[5];   // per kind: make the call fail
static uint64_t g_setBuiltAt = 0, g_setComputedAt = 0, g_setKey = 0, g_setSig = 0; static unsigned g_setNDeps = 0; static uint8_t g_setVal = 0; static uint64_t g_setDepKey[4]; static uint8_t g_setDepFlags[4];
static uint64_t g_dbEpoch = 0;
static void dblog(int e, uint64_t a) { if (g_ndb < 12) { g_db[g_ndb] = e; g_dbArg[g_ndb] = a; } g_ndb++; }
struct HDB : public BuildDB {
  void attachDelegate(BuildDBDelegate*) override {}
  Epoch getCurrentEpoch(bool* ok, std::string*) override { dblog(DB_GETEPOCH, 0); *ok = !g_dbFail[0]; return g_dbEpoch; }
  bool setCurrentIteration(uint64_t v, std::string*) override { dblog(DB_SETITER, v); return !g_dbFail[1]; }
  bool lookupRuleResult(KeyID, const KeyType&, Result*, std::string*) override { dblog(DB_LOOKUP, 0); return true; }
  bool setRuleResult(KeyID k, const Rule& r, const Result& res, std::string*) override {
    dblog(DB_SETRESULT, k._value);
    g_setKey = k._value; g_setBuiltAt = res.builtAt; g_setComputedAt = res.computedAt; g_setSig = res.signature.value; g_setNDeps = res.dependencies.size(); g_setVal = res.value.size() ? res.value[0] : 0xEE;
    for (unsigned i = 0; i < 4 && i < res.dependencies.size(); i++) { g_setDepKey[i] = res.dependencies[i].keyID._value; g_setDepFlags[i] = (res.dependencies[i].orderOnly ? 1 : 0) | (res.dependencies[i].singleUse ? 2 : 0); }
    return !g_dbFail[2];
  }
  bool buildStarted(std::string*) override { dblog(DB_STARTED, 0); return !g_dbFail[3]; }
  void buildComplete() override { dblog(DB_COMPLETE, 0); }
  bool getKeys(std::vector<KeyType>&, std::string*) override { return true; }
  bool getKeysWithResult(std::vector<KeyType>&, std::vector<Result>&, std::string*) override { return true; }
};
}
