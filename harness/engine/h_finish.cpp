// C01-O6 / C03 / C04 / C06-P2: the finished-task pass of the real executeTasks loop.  Rule R's task has
// reported; it has one discovered dependency D, one waiting requester (task TW of rule W, request
// flags symbolic) and one scan request parked on it (rule S).  A database is attached.
#include "eng.h"
#include "db.h"
// VF_PART selects which of the task's attachments is present (one per query keeps every other
// container empty, hence concrete): 0 discovered dependency + database write, 1 waiting requester, 2 parked scan request
#ifndef VF_PART
#define VF_PART 0
#endif
static BuildEngineImpl* g_impl; static RuleInfo *g_R, *g_W, *g_S, *g_D; static HTask *g_TR, *g_TW; static int g_waits = 0; static uint64_t g_cAfter, g_E; static uint8_t g_valAfter; static bool g_oo0, g_su0, g_wOrderOnly;
static int g_scanCalls = 0, g_demandCalls = 0, g_prsr = 0, g_cancelCalls = 0; static RuleInfo* g_prsrRule = nullptr; static RuleInfo* g_demanded = nullptr;
extern "C" RuleInfo* stub_getRuleInfoForKeyType(BuildEngineImpl* impl, const KeyType* key) { return VF_PART == 1 ? g_W : g_R; }   // the build key
static uint64_t g_kd = 48;
extern "C" RuleInfo* stub_getRuleInfoForKey(BuildEngineImpl* impl, uint64_t keyid) { VF_ASSERT(keyid == g_kd, "only the discovered dependency is looked up by id"); if (keyid != g_kd) VF_STOP(); return g_D; }
extern "C" bool stub_scanRule(BuildEngineImpl* impl, RuleInfo* r) { g_scanCalls++; return true; }
extern "C" bool stub_demandRule(BuildEngineImpl* impl, RuleInfo* r) { g_demandCalls++; if (r == g_D) g_demanded = r; if (r == g_D) return true; return r->isComplete(impl); }
extern "C" void stub_processRuleScanRequest(BuildEngineImpl* impl, BuildEngineImpl::RuleScanRequest* req) { g_prsr++; g_prsrRule = req->ruleInfo; }
extern "C" bool stub_resolveCycle(BuildEngineImpl* impl, const KeyType* key) { VF_ASSERT(false, "no cycle resolution expected"); VF_STOP(); return false; }
extern "C" void stub_cancelRemainingTasks(BuildEngineImpl* impl) { g_cancelCalls++; }
extern "C" int stub_mutex_lock(void* m) { return 0; }
static void checksAfterRelease();
extern "C" void stub_cv_wait(void* cv, void* lock) {
  // cut: the obligation ends when the engine blocks waiting for W's task (W then runs as in the
  // single-task pass obligation); everything the finished pass had to do is checked here
  g_waits++;
  VF_ASSERT(g_impl->finishedTaskInfos.empty(), "the engine never blocks while a completion is queued");
  VF_ASSERT(g_W->isInProgressComputing(), "the engine waits only while a task is computing");
  checksAfterRelease();
#if VF_PART == 1
  VF_WITNESS();
#endif
  VF_STOP();
}
extern "C" void harness_finish(void) {
  uint64_t E = nondet_u64(); VF_ASSUME(E >= 2 && E < (1ull << 62));
  BuildEngineImpl* impl = newEngine(E); g_impl = impl;
  impl->db.reset(new HDB);
  g_dbFail[2] = nondet_bool();     // the result write may fail
  impl->ruleInfosToScan.reserve(4); impl->finishedInputRequests.reserve(4); impl->finishedTaskInfos.reserve(4);
  RuleInfo& D = newRuleInfo(48, 0); g_D = &D; D.state = RuleInfo::StateKind::Complete; D.result.builtAt = E; D.result.computedAt = E;
  RuleInfo& S = newRuleInfo(80, 0); g_S = &S; S.state = RuleInfo::StateKind::IsScanning; S.setPendingScanRecord(new BuildEngineImpl::RuleScanRecord);
  // R: computing; one requested dependency already recorded (key 32)
  RuleInfo& R = newRuleInfo(16, nondet_u64()); g_R = &R;
  uint64_t B = nondet_u64(); VF_ASSUME(B < E); R.result.builtAt = B; R.result.computedAt = nondet_u64(); VF_ASSUME(B == 0 ? R.result.computedAt < E : R.result.computedAt <= B);   // Inv(i)
  R.result.value.reserve(2); R.result.value.push_back(nondet_u8());
  R.result.dependencies.keys.reserve(4); R.result.dependencies.flags.reserve(4);
  bool oo0 = nondet_bool(), su0 = nondet_bool(); KeyID k32; k32._value = 32; R.result.dependencies.push_back(k32, oo0, su0);
  HTask* TR = new HTask; g_TR = TR; auto r1 = impl->taskInfos.emplace(TR, TaskInfo(TR)); TaskInfo* tr = &r1.first->second; tr->forRuleInfo = &R;
  R.state = RuleInfo::StateKind::InProgressComputing; R.setPendingTaskInfo(tr); impl->numOutstandingUnfinishedTasks = 1;
  tr->requestedBy.reserve(2); tr->deferredScanRequests.reserve(2); tr->discoveredDependencies.keys.reserve(2); tr->discoveredDependencies.flags.reserve(2);
#if VF_PART == 0
  g_kd = nondet_bool() ? 32 : 48;   // the discovered key may be one the task also requested (e.g. as a must-follow input)
  KeyID k48; k48._value = g_kd; tr->discoveredDependencies.push_back(k48, false, false);
#endif
  // W: waits for R (one request, flags symbolic)
  RuleInfo& W = newRuleInfo(64, nondet_u64()); g_W = &W; W.result.builtAt = 0;
#if VF_PART == 1
  HTask* TW = new HTask; g_TW = TW; auto r2 = impl->taskInfos.emplace(TW, TaskInfo(TW)); TaskInfo* tw = &r2.first->second; tw->forRuleInfo = &W; tw->waitCount = 1;
  W.state = RuleInfo::StateKind::InProgressWaiting; W.setPendingTaskInfo(tw); W.result.dependencies.keys.reserve(2); W.result.dependencies.flags.reserve(2);
#else
  HTask* TW = new HTask; g_TW = TW; W.state = RuleInfo::StateKind::Incomplete;
#endif
  bool wOrderOnly = nondet_bool();
#if VF_PART == 1
  tr->requestedBy.push_back({ tw, wOrderOnly ? ~(uintptr_t)0 : 9, &R, wOrderOnly, false, false });
#endif
#if VF_PART == 2
  tr->deferredScanRequests.push_back(scanRequest(&S, 0, &R, false));
#endif
  // R's task reports (real taskIsComplete), then the engine loop runs
  uint8_t newVal = nondet_u8(); bool force = nondet_bool();
  { ValueType v; v.reserve(2); v.push_back(newVal); impl->taskIsComplete(TR, std::move(v), force); }
  g_cAfter = R.result.computedAt; g_valAfter = R.result.value[0]; g_E = E; g_oo0 = oo0; g_su0 = su0; g_wOrderOnly = wOrderOnly;
  bool ok = impl->executeTasks(KeyType("w"));
#if VF_PART == 1
  // with a requester, only the database-failure path returns; the success path ends in the wait stub
  VF_ASSERT(g_dbFail[2], "the loop returns only when the database write failed");
#else
  if (!g_dbFail[2]) { VF_ASSERT(ok && g_waits == 0, "the loop ends by itself when nothing is left"); checksAfterRelease(); VF_ASSERT(impl->taskInfos.empty() && impl->numOutstandingUnfinishedTasks == 0, "nothing is left"); VF_WITNESS(); return; }
#endif
  VF_ASSERT(!ok && g_errors == 1 && g_cancelCalls == 1, "a failed database write is reported, cancels the rest and fails the build");
  VF_ASSERT(g_TW->nev == 0, "no dependent is fed after the failure");
  VF_ASSERT(g_ndb == 1 && g_db[0] == DB_SETRESULT && g_dbArg[0] == 16, "exactly the one write was attempted");
  VF_WITNESS_ALSO("database-failure path reachable");
}
static void checksAfterRelease() {
  RuleInfo& R = *g_R; RuleInfo& W = *g_W; HTask* TW = g_TW; uint64_t E = g_E;
  VF_ASSERT(!g_dbFail[2] && g_errors == 0 && g_cancelCalls == 0, "no failure");
  VF_ASSERT(g_ndb == 1 && g_db[0] == DB_SETRESULT && g_dbArg[0] == 16, "R's result is written exactly once when its task is finished");
  VF_ASSERT(g_setKey == 16 && g_setBuiltAt == E && g_setComputedAt == g_cAfter && g_setVal == g_valAfter && g_setSig == R.rule->signature.value, "the record written is R's: built now, value/computedAt/signature as completion recorded them");
  VF_ASSERT(g_setNDeps == (VF_PART == 0 ? 2 : 1) && g_setDepKey[0] == 32 && g_setDepFlags[0] == ((g_oo0 ? 1 : 0) | (g_su0 ? 2 : 0)), "the record carries the dependency list of this execution, with flags");
#if VF_PART == 0
  VF_ASSERT(g_setDepKey[1] == g_kd && g_setDepFlags[1] == 0, "every discovered dependency follows the requested ones in the record as a regular dependency - also when the same key was requested before with other flags");
#endif
  VF_ASSERT(R.result.builtAt == E && R.state == RuleInfo::StateKind::Complete, "R is complete in this build");
  VF_ASSERT(R.result.computedAt == g_cAfter && R.result.value[0] == g_valAfter, "finishing does not alter the value or computedAt that completion recorded");
#if VF_PART == 0
  VF_ASSERT(R.result.dependencies.size() == 2, "discovered dependencies are appended after the requested ones");
  VF_ASSERT(g_demanded == g_D, "the discovered dependency is requested (brought up to date) in this build");
#endif
#if VF_PART == 2
  VF_ASSERT(g_prsr == 1 && g_prsrRule == g_S, "the scan request parked on the task is resumed exactly once");
#endif
#if VF_PART == 1
  if (g_wOrderOnly) VF_ASSERT(TW->nev == 1 && TW->ev[0] == EV_INPUTS, "must-follow requester: released without a value");
  else VF_ASSERT(TW->nev == 2 && TW->ev[0] == EV_VALUE && TW->evArg[0] == 9 && TW->evVal[0] == g_valAfter && TW->ev[1] == EV_INPUTS, "the requester receives R's new value once (its id), then inputs-available");
  VF_ASSERT(g_impl->taskInfos.size() == 1 && g_impl->numOutstandingUnfinishedTasks == 1, "R's task is gone; only the requester's task is outstanding");
#endif
}
