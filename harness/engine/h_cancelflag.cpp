// C05-X3: executeTasks observes the cancellation flag at the top of its loop: with the flag set it
// cancels the remaining tasks and fails without running anything.
#include "eng.h"
static BuildEngineImpl* g_impl; static RuleInfo* g_R; static int g_cancelCalls = 0, g_scan = 0, g_demand = 0;
extern "C" RuleInfo* stub_getRuleInfoForKeyType(BuildEngineImpl* impl, const KeyType* key) { return g_R; }
extern "C" RuleInfo* stub_getRuleInfoForKey(BuildEngineImpl* impl, uint64_t keyid) { return g_R; }
extern "C" bool stub_scanRule(BuildEngineImpl* impl, RuleInfo* r) { g_scan++; return true; }
extern "C" bool stub_demandRule(BuildEngineImpl* impl, RuleInfo* r) { g_demand++; return true; }
extern "C" bool stub_resolveCycle(BuildEngineImpl* impl, const KeyType* key) { VF_ASSERT(false, "no cycle resolution expected"); VF_STOP(); return false; }
extern "C" void stub_cancelRemainingTasks(BuildEngineImpl* impl) { g_cancelCalls++; }
extern "C" int stub_mutex_lock(void* m) { return 0; }
extern "C" void stub_cv_wait(void* cv, void* lock) { VF_ASSERT(false, "a cancelled build does not wait in the main loop"); VF_STOP(); }
extern "C" void harness_cancelflag(void) {
  BuildEngineImpl* impl = newEngine(5); g_impl = impl;
  RuleInfo& R = newRuleInfo(16, 0); g_R = &R; R.state = RuleInfo::StateKind::NeedsToRun;
  impl->buildCancelled = true;
  impl->ruleInfosToScan.reserve(2); impl->finishedInputRequests.reserve(2);
  bool ok = impl->executeTasks(KeyType("r"));
  VF_ASSERT(!ok && g_cancelCalls == 1, "cancelled: the remaining tasks are cancelled once and the build fails");
  VF_ASSERT(g_scan == 0 && g_demand == 0 && g_createTask == 0, "nothing is scanned, demanded or started after cancellation was requested");
  VF_WITNESS();
}
