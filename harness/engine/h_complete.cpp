// C01-O7 / C02: taskIsComplete.
#include "eng.h"
extern "C" void harness_complete(void) {
  uint64_t E = nondet_u64(); VF_ASSUME(E >= 1);
  BuildEngineImpl* impl = newEngine(E);
  uint64_t ruleSig = nondet_u64();
  RuleInfo& ri = newRuleInfo(16, ruleSig);
  uint64_t B = nondet_u64(), C = nondet_u64(); VF_ASSUME(C <= B && B < E);
  ri.result.builtAt = B; ri.result.computedAt = C; ri.result.signature = CommandSignature(nondet_u64());
  uint8_t oldVal = nondet_u8(); bool hadValue = nondet_bool(); ri.result.value.reserve(2); if (hadValue) ri.result.value.push_back(oldVal);
  HTask* T = new HTask;
  auto res = impl->taskInfos.emplace(T, TaskInfo(T)); TaskInfo* ti = &res.first->second; ti->forRuleInfo = &ri;
  uint8_t st = nondet_u8(); VF_ASSUME(st == 4 || st == 5);
  ri.state = (RuleInfo::StateKind)st; ri.setPendingTaskInfo(ti);
  impl->finishedTaskInfos.reserve(2);
  uint8_t newVal = nondet_u8(); bool hasNew = nondet_bool(); bool force = nondet_bool();
  ValueType v; v.reserve(2); if (hasNew) v.push_back(newVal);
  impl->taskIsComplete(T, std::move(v), force);
  vf_observe(ri.result.computedAt == E);
  if (st == 4) {
    VF_ASSERT(g_errors == 1 && impl->buildCancelled && impl->finishedTaskInfos.empty() && ri.result.computedAt == C, "completing before inputs-available is an error: build cancelled, nothing recorded");
  } else {
    bool same = hasNew == hadValue && (!hasNew || newVal == oldVal);
    VF_ASSERT(ri.result.signature.value == ruleSig, "the rule's current signature is recorded with the result");
    if (force || !same) {
      VF_ASSERT(ri.result.computedAt == E && ri.result.value.size() == (hasNew ? 1u : 0u) && (!hasNew || ri.result.value[0] == newVal), "changed (or forced): value replaced and computedAt := current epoch");
    } else {
      VF_ASSERT(ri.result.computedAt == C && ri.result.value.size() == (hadValue ? 1u : 0u) && (!hadValue || ri.result.value[0] == oldVal), "identical value, not forced: value and computedAt untouched");
    }
    VF_ASSERT(ri.result.builtAt == B, "builtAt is only advanced when the engine finishes the task");
    VF_ASSERT(impl->finishedTaskInfos.size() == 1 && impl->finishedTaskInfos[0] == ti, "the task is queued as finished exactly once");
    VF_ASSERT(g_errors == 0 && !impl->buildCancelled, "no error");
  }
  VF_WITNESS();
}
