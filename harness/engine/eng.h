// Common scaffolding of the BuildEngine harnesses: the real lib/Core/BuildEngine.cpp is pulled in
// unmodified (anonymous-namespace BuildEngineImpl becomes nameable), rules/tasks/delegate are
// recording stubs with arbitrary answers.
#pragma once
#include "vf.h"
#include VF_REPO_SRC(lib/Core/BuildEngine.cpp)
typedef BuildEngineImpl::RuleInfo RuleInfo;
typedef BuildEngineImpl::TaskInfo TaskInfo;
namespace {
// ---- delegate: records what the engine reports
static int g_reason = -1; static Rule* g_reasonInput = nullptr; static Rule* g_reasonRule = nullptr; static int g_reasonCount = 0; static int g_errors = 0; static int g_cycles = 0;
struct HDelegate : public BuildEngineDelegate {
  std::unique_ptr<basic::ExecutionQueue> createExecutionQueue() override { return nullptr; }
  std::unique_ptr<Rule> lookupRule(const KeyType& key) override { VF_ASSERT(false, "harness: lookupRule not expected"); VF_STOP(); return nullptr; }
  void determinedRuleNeedsToRun(Rule* r, Rule::RunReason reason, Rule* input) override { g_reasonRule = r; g_reason = (int)reason; g_reasonInput = input; g_reasonCount++; }
  void cycleDetected(const std::vector<Rule*>&) override { g_cycles++; }
  void error(const Twine&) override { g_errors++; }
};
// ---- rule: validity answer is arbitrary, creation/validity/status calls are counted
static int g_createTask = 0; static int g_validCalls = 0; static bool g_validResult = false; static int g_status[4]; static Task* g_nextTask = nullptr;
struct HRule : public Rule {
  HRule(const KeyType& k, CommandSignature s) : Rule(k, s) {}
  Task* createTask(BuildEngine&) override { g_createTask++; VF_ASSERT(g_nextTask != nullptr, "harness: createTask not expected here"); if (!g_nextTask) VF_STOP(); Task* t = g_nextTask; g_nextTask = nullptr; return t; }
  bool isResultValid(BuildEngine&, const ValueType&) override { g_validCalls++; g_validResult = nondet_bool(); return g_validResult; }
  void updateStatus(BuildEngine&, StatusKind k) override { g_status[(int)k]++; }
};
// ---- task: logs the protocol events it sees
enum Ev { EV_START = 1, EV_PRIOR, EV_VALUE, EV_INPUTS };
struct HTask : public Task {
  bool requestInPrior = false;   // a task may ask for an input while it is given its prior value
  int ev[8]; uint64_t evArg[8]; uint8_t evVal[8]; int nev = 0;
  void log(int e, uint64_t a, uint8_t v) { if (nev < 8) { ev[nev] = e; evArg[nev] = a; evVal[nev] = v; } nev++; }
  void start(TaskInterface) override { log(EV_START, 0, 0); }
  void providePriorValue(TaskInterface ti, const ValueType& v) override { log(EV_PRIOR, 0, v.size() ? v[0] : 0xEE); if (requestInPrior) ti.request(KeyType("dep"), 3); }
  void provideValue(TaskInterface, uintptr_t id, const KeyType&, const ValueType& v) override { log(EV_VALUE, id, v.size() ? v[0] : 0xEE); }
  void inputsAvailable(TaskInterface) override { log(EV_INPUTS, 0, 0); }
};
// scan requests are built field by field so that the harness survives a re-layout of the struct
template<class T> auto setOrderOnly(T& r, bool v, int) -> decltype((void)(r.orderOnly = v)) { r.orderOnly = v; }
template<class T> void setOrderOnly(T&, bool, long) {}
template<class T> auto setSingleUse(T& r, bool v, int) -> decltype((void)(r.singleUse = v)) { r.singleUse = v; }
template<class T> void setSingleUse(T&, bool, long) {}
template<class T> auto getOrderOnly(const T& r, bool dflt, int) -> decltype((bool)r.orderOnly) { return r.orderOnly; }
template<class T> bool getOrderOnly(const T&, bool dflt, long) { return dflt; }
static BuildEngineImpl::RuleScanRequest scanRequest(RuleInfo* ri, unsigned index, RuleInfo* input, bool orderOnly) {
  BuildEngineImpl::RuleScanRequest r{}; r.ruleInfo = ri; r.inputIndex = index; r.inputRuleInfo = input; setOrderOnly(r, orderOnly, 0); setSingleUse(r, false, 0); return r;
}
static BuildEngineImpl* newEngine(uint64_t epoch) {
  HDelegate& delegate = *new HDelegate;
  BuildEngine& engine = *new BuildEngine(delegate);
  BuildEngineImpl* impl = static_cast<BuildEngineImpl*>(engine.impl);
  impl->currentEpoch = epoch;
  return impl;
}
static RuleInfo& newRuleInfo(uint64_t keyid, uint64_t sig) {
  KeyID k; k._value = keyid;
  return *new RuleInfo(k, std::unique_ptr<Rule>(new HRule(KeyType("k"), CommandSignature(sig))));
}
}
