// C01-O1 / C02: scanRule decision table from an arbitrary rule state.
#include "eng.h"
#ifndef VF_NDEPS
#define VF_NDEPS 2
#endif
extern "C" void harness_scanRule(void) {
  uint64_t E = nondet_u64(); VF_ASSUME(E >= 1);
  BuildEngineImpl* impl = newEngine(E);
  uint64_t ruleSig = nondet_u64();
  RuleInfo& ri = newRuleInfo(16, ruleSig);
  ri.result.builtAt = nondet_u64(); ri.result.computedAt = nondet_u64(); ri.result.signature = CommandSignature(nondet_u64());
  VF_ASSUME(ri.result.builtAt <= E && (ri.result.builtAt == 0 ? ri.result.computedAt <= E : ri.result.computedAt <= ri.result.builtAt));     // Inv(i): computedAt <= builtAt <= epoch, or builtAt == 0 (never built, or its task was cancelled: computedAt then keeps its old value)
  uint8_t st = nondet_u8();
  VF_ASSUME(st == 0 || st == 2 || st == 3 || st == 6);   // Incomplete, NeedsToRun, DoesNotNeedToRun, Complete (states without a pending record)
  ri.state = (RuleInfo::StateKind)st;
  ri.wasForced = nondet_bool();
  unsigned nPersistent = 0; bool oo[VF_NDEPS + 1], su[VF_NDEPS + 1];
  ri.result.dependencies.keys.reserve(VF_NDEPS + 1); ri.result.dependencies.flags.reserve(VF_NDEPS + 1);
  for (int i = 0; i < VF_NDEPS; i++) {
    oo[i] = nondet_bool(); su[i] = nondet_bool();
    KeyID dk; dk._value = 32 + 16 * i;
    ri.result.dependencies.push_back(dk, oo[i], su[i]);
    if (!su[i]) nPersistent++;
  }
  impl->ruleInfosToScan.reserve(4);
  impl->freeRuleScanRecords.push_back(new BuildEngineImpl::RuleScanRecord);
  uint64_t builtAt0 = ri.result.builtAt, computedAt0 = ri.result.computedAt, sig0 = ri.result.signature.value;
  bool wasScanned = ri.isScanned(impl);
  bool r = impl->scanRule(ri);
  vf_observe(r); vf_observe((uint64_t)ri.state);
  VF_ASSERT(ri.result.builtAt == builtAt0 && ri.result.computedAt == computedAt0 && ri.result.signature.value == sig0, "scanning never changes epochs or the recorded signature");
  VF_ASSERT(g_createTask == 0, "scanning never creates a task");
  if (wasScanned) {
    VF_ASSERT(r && g_reasonCount == 0 && g_validCalls == 0 && (uint8_t)ri.state == st && ri.result.dependencies.size() == VF_NDEPS, "already scanned in this build: no effect at all");
  } else {
    // single-use dependencies are dropped first, the others kept in order with their flags
    VF_ASSERT(ri.result.dependencies.size() == nPersistent, "exactly the single-use dependencies are removed");
    unsigned k = 0;
    for (int i = 0; i < VF_NDEPS; i++) if (!su[i]) {
      VF_ASSERT(k < ri.result.dependencies.size() && ri.result.dependencies[k].keyID._value == (uint64_t)(32 + 16 * i) && ri.result.dependencies[k].orderOnly == oo[i] && !ri.result.dependencies[k].singleUse,
                "surviving dependencies keep their key, order and order-only flag");
      k++;
    }
    if (builtAt0 == 0) {
      VF_ASSERT(r && (int)ri.state == 2 && g_reason == (int)Rule::RunReason::NeverBuilt && g_reasonCount == 1 && g_reasonInput == nullptr, "never built => NeedsToRun, reported as NeverBuilt");
    } else if (sig0 != ruleSig) {
      VF_ASSERT(r && (int)ri.state == 2 && g_reason == (int)Rule::RunReason::SignatureChanged && g_reasonCount == 1 && g_validCalls == 0, "signature changed => NeedsToRun, reported as SignatureChanged, validity not consulted");
    } else {
      VF_ASSERT(g_validCalls == 1, "validity is consulted exactly once");
      if (!g_validResult) {
        VF_ASSERT(r && (int)ri.state == 2 && g_reason == (int)Rule::RunReason::InvalidValue && g_reasonCount == 1, "invalid value => NeedsToRun, reported as InvalidValue");
      } else if (nPersistent == 0) {
        VF_ASSERT(r && (int)ri.state == 3 && g_reasonCount == 0, "valid, no recorded dependency => DoesNotNeedToRun, nothing reported");
      } else {
        VF_ASSERT(!r && (int)ri.state == 1 && g_reasonCount == 0, "valid with recorded dependencies => IsScanning, nothing reported yet");
        VF_ASSERT(impl->ruleInfosToScan.size() == 1 && impl->ruleInfosToScan[0].ruleInfo == &ri && impl->ruleInfosToScan[0].inputIndex == 0 && impl->ruleInfosToScan[0].inputRuleInfo == nullptr,
                  "one scan request is enqueued, starting at the first dependency");
      }
    }
    if (g_reasonCount) VF_ASSERT(g_reasonRule == ri.rule.get(), "the reason is reported for this rule");
    VF_ASSERT(g_status[(int)Rule::StatusKind::IsScanning] == 1, "status IsScanning reported once");
  }
  VF_WITNESS();
}
