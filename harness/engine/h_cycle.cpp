// C07-Y1: BuildEngineImpl::findCycle on every wait-for graph over VF_N rules.
// One query per graph SHAPE (VF_SHAPE: bit i*N+j set = the task of rule i waits on rule j); the rule keys - which
// decide the order in which findCycle explores predecessors, hence WHICH cycle it reports - are symbolic.
// The requested key is rule 0 (every other choice is a relabelling of some shape).
// VF_SCAN: bit i set = rule i has no task yet, it is still being SCANNED (its recorded dependencies are being checked) and
// is parked on at most one input; who waits for a scanning rule is recorded in that rule's scan record (paused input requests
// of tasks, deferred scan requests of other scanning rules) - the path by which cycles recorded by EARLIER builds are found.
#include "eng.h"
#ifndef VF_N
#define VF_N 3
#endif
#ifndef VF_SHAPE
#define VF_SHAPE 0
#endif
#ifndef VF_SCAN
#define VF_SCAN 0
#endif
#ifndef VF_RESOLVE
#define VF_RESOLVE 0
#endif
static RuleInfo* g_ri[VF_N]; static HTask* g_task[VF_N];
// VF_RESOLVE 1: the whole resolveCycle step - the list is the one handed to the client's cycleDetected()
static std::vector<Rule*>* g_reported = nullptr; static int g_reports = 0;
struct CDelegate : public HDelegate { void cycleDetected(const std::vector<Rule*>& items) override { g_reports++; g_reported = new std::vector<Rule*>(items); } };
static uint8_t g_key[VF_N];
// key -> rule info: the requested key ("root", 4 bytes) is rule 0; a rule's own 1-byte key names that rule (keys are pairwise distinct)
extern "C" RuleInfo* stub_getRuleInfoForKeyType(BuildEngineImpl*, const KeyType* key) {
  if (key->size() == 1) for (unsigned i = 0; i < VF_N; i++) if ((uint8_t)key->data()[0] == g_key[i]) return g_ri[i];
  return g_ri[0];
}
// the hash of a pointer is any function of it: an injective small number keeps the real hash tables' bucket arithmetic concrete
extern "C" size_t stub_hash_task(const void*, Task* t) { for (unsigned i = 0; i < VF_N; i++) if (t == g_task[i]) return i + 1; return 0; }
extern "C" size_t stub_hash_rule(const void*, Rule* r) { for (unsigned i = 0; i < VF_N; i++) if (r == g_ri[i]->rule.get()) return i + 1; return 0; }
static BuildEngineImpl::RuleScanRecord* g_rec[VF_N];
extern "C" size_t stub_hash_record(const void*, const BuildEngineImpl::RuleScanRecord* p) { for (unsigned i = 0; i < VF_N; i++) if (p == g_rec[i]) return i + 1; return 0; }
static bool scanning(unsigned i) { return ((unsigned)VF_SCAN >> i) & 1u; }
static bool edge(unsigned i, unsigned j) { return ((unsigned)VF_SHAPE >> (i * VF_N + j)) & 1u; }
extern "C" void harness_cycle(void) {
  BuildEngine& engine = *new BuildEngine(*new CDelegate); BuildEngineImpl* impl = static_cast<BuildEngineImpl*>(engine.impl); impl->currentEpoch = 1;
  TaskInfo* ti[VF_N]; uint8_t key[VF_N];
  for (unsigned i = 0; i < VF_N; i++) {
    key[i] = nondet_u8(); for (unsigned k = 0; k < i; k++) VF_ASSUME(key[k] != key[i]);      // distinct keys, any order
    g_key[i] = key[i];
    KeyID id; id._value = i + 1;
    auto it = impl->ruleInfos.emplace(id, RuleInfo(id, std::unique_ptr<Rule>(new HRule(KeyType(std::string(1, (char)key[i])), CommandSignature(0))))).first;
    g_ri[i] = &it->second;
    g_task[i] = nullptr; g_rec[i] = nullptr; ti[i] = nullptr;
#if defined(VF_PRIOR) && VF_PRIOR
    g_ri[i]->result.builtAt = nondet_bool() ? 1 : 0;      // any rule may or may not have a result from an earlier build (a candidate for "supply the prior value")
#endif
    if (scanning(i)) { g_ri[i]->state = RuleInfo::StateKind::IsScanning; g_rec[i] = new BuildEngineImpl::RuleScanRecord; g_ri[i]->inProgressInfo.pendingScanRecord = g_rec[i]; }
    else { g_ri[i]->state = RuleInfo::StateKind::InProgressWaiting; g_task[i] = new HTask; }
  }
  for (unsigned i = 0; i < VF_N; i++) if (!scanning(i)) {
    auto it = impl->taskInfos.emplace(g_task[i], TaskInfo(g_task[i])).first;
    ti[i] = &it->second; ti[i]->forRuleInfo = g_ri[i]; g_ri[i]->inProgressInfo.pendingTaskInfo = ti[i];
  }
  for (unsigned i = 0; i < VF_N; i++) {
    unsigned w = 0;
    for (unsigned j = 0; j < VF_N; j++) if (edge(i, j)) {
      w++;
      if (!scanning(i)) { BuildEngineImpl::TaskInputRequest r{}; r.taskInfo = ti[i]; r.inputID = j; r.inputRuleInfo = g_ri[j];
                          if (!scanning(j)) ti[j]->requestedBy.push_back(r); else g_rec[j]->pausedInputRequests.push_back(r); }          // a task's request: waiting for j's task, or paused until j is scanned
      else { BuildEngineImpl::RuleScanRequest r = scanRequest(g_ri[i], 0, g_ri[j], false);
             if (!scanning(j)) ti[j]->deferredScanRequests.push_back(r); else g_rec[j]->deferredScanRequests.push_back(r); }             // i's scan is deferred until j is available
    }
    if (!scanning(i)) ti[i]->waitCount = w;
  }
#if VF_RESOLVE
  // no rule of the cycle is still scanning and none has a prior result: the cycle cannot be broken, it must be reported
  bool goOn = impl->resolveCycle(KeyType("root"));
  VF_ASSERT(!goOn && g_reports == 1 && g_reported != nullptr, "a cycle that cannot be broken is reported to the client exactly once and the build does not go on");
  std::vector<Rule*>& cyc = *g_reported;
  for (unsigned i = 0; i < VF_N; i++) if (!scanning(i)) { unsigned w = 0; for (unsigned j = 0; j < VF_N; j++) if (edge(i, j)) w++; VF_ASSERT(ti[i]->waitCount == w, "reporting a cycle changes no task"); }
#else
  std::vector<Rule*>& cyc = *new std::vector<Rule*>(impl->findCycle(KeyType("root")));
#endif
  vf_observe(cyc.size());
  // reference: is a cycle reachable from rule 0 along wait-for edges?  (concrete per shape)
  bool reach[VF_N]; for (unsigned i = 0; i < VF_N; i++) reach[i] = i == 0;
  for (unsigned round = 0; round < VF_N; round++) for (unsigned i = 0; i < VF_N; i++) if (reach[i]) for (unsigned j = 0; j < VF_N; j++) if (edge(i, j)) reach[j] = true;
  bool onCycle[VF_N];                                  // i reaches itself
  for (unsigned i = 0; i < VF_N; i++) { bool r2[VF_N]; for (unsigned j = 0; j < VF_N; j++) r2[j] = edge(i, j); for (unsigned round = 0; round < VF_N; round++) for (unsigned a = 0; a < VF_N; a++) if (r2[a]) for (unsigned b = 0; b < VF_N; b++) if (edge(a, b)) r2[b] = true; onCycle[i] = r2[i]; }
  bool cycleReachable = false; for (unsigned i = 0; i < VF_N; i++) if (reach[i] && onCycle[i]) cycleReachable = true;
  if (!cycleReachable) VF_ASSERT(cyc.empty(), "no cycle is reported when the requested key does not depend on one");
  else {
    VF_ASSERT(cyc.size() >= 2 && cyc.size() <= VF_N + 1, "a cycle the requested key depends on is found");
    unsigned idx[VF_N + 1]; unsigned n = (unsigned)cyc.size();
    for (unsigned p = 0; p < VF_N + 1; p++) { idx[p] = VF_N; if (p < n) for (unsigned i = 0; i < VF_N; i++) if (cyc[p] == g_ri[i]->rule.get()) idx[p] = i; }
    for (unsigned p = 0; p < VF_N + 1; p++) if (p < n) VF_ASSERT(idx[p] < VF_N, "every reported element is a rule of this build");
    VF_ASSERT(idx[0] == 0, "the reported list starts at the requested key");
    for (unsigned p = 0; p + 1 < VF_N + 1; p++) if (p + 1 < n) VF_ASSERT(edge(idx[p], idx[p + 1]), "each consecutive pair of the reported list is a real wait-for relationship");
    bool repeats = false; for (unsigned p = 0; p + 1 < VF_N + 1; p++) if (p + 1 < n && idx[p] == idx[n - 1]) repeats = true;
    VF_ASSERT(repeats, "the last reported key repeats an earlier one (the list closes a cycle)");
    for (unsigned p = 0; p + 1 < VF_N + 1; p++) for (unsigned q = p + 1; q + 1 < VF_N + 1; q++) if (q + 1 < n) VF_ASSERT(idx[p] != idx[q], "no key is listed twice before the closing one");
  }
  VF_WITNESS();
}
