// C01-O4/O5/O6, C02, C06-P1/P3: one run of the real executeTasks loop from a crafted queue state:
// rule R has a task T waiting for one requested input I (already complete in this build); the
// request's flags, all epochs, values and forceChange are symbolic.  The engine records the
// dependency, delivers the value, calls inputsAvailable, blocks; the environment (another thread)
// completes T through the real taskIsComplete; the finished pass runs.
//
// VF_INJECT_AT = k >= 0: the completing thread is scheduled just before the engine's k-th
// acquisition of finishedTaskInfosMutex (lost wake-up check, one query per k); k = -1: the
// completion arrives while the engine is blocked in wait().
#include "eng.h"
#ifndef VF_INJECT_AT
#define VF_INJECT_AT -1
#endif
static BuildEngineImpl* g_impl; static RuleInfo* g_R; static RuleInfo* g_I; static HTask* g_T; static uint64_t g_E;
static bool g_completed = false; static uint8_t g_newValue; static bool g_force; static int g_waits = 0; static int g_dbWrites = 0;
extern "C" RuleInfo* stub_getRuleInfoForKeyType(BuildEngineImpl* impl, const KeyType* key) { return g_R; }   // the build key is R
extern "C" RuleInfo* stub_getRuleInfoForKey(BuildEngineImpl* impl, uint64_t keyid) { VF_ASSERT(false, "harness: no key-id lookup expected"); VF_STOP(); return g_I; }
extern "C" bool stub_scanRule(BuildEngineImpl* impl, RuleInfo* r) { return true; }     // contract: both rules are already scanned
extern "C" bool stub_resolveCycle(BuildEngineImpl* impl, const KeyType* key) { VF_ASSERT(false, "no cycle resolution expected: the engine must not consider itself stuck"); VF_STOP(); return false; }
extern "C" void stub_cancelRemainingTasks(BuildEngineImpl* impl) { VF_ASSERT(false, "no cancellation expected"); VF_STOP(); }
extern "C" bool stub_demandRule(BuildEngineImpl* impl, RuleInfo* r) {
  if (r == g_I) return true;                       // contract O3: input complete in this build
  return r->isComplete(impl);                      // R: in progress until its task finished
}
static bool g_inProducer = false;
static void producerStep() {                       // the other thread: T reports completion
  g_inProducer = true; g_completed = true;
  ValueType v; v.reserve(2); v.push_back(g_newValue);
  g_impl->taskIsComplete(g_T, std::move(v), g_force);
  g_inProducer = false;
}
extern "C" int stub_mutex_lock(void* m) {
  static int nlock = 0;
  if (!g_inProducer && m == (void*)&g_impl->finishedTaskInfosMutex) {
    if (nlock == VF_INJECT_AT && !g_completed && g_R->isInProgressComputing()) producerStep();
    nlock++;
  }
  return 0;
}
extern "C" void stub_cv_wait(void* cv, void* lock) {
  g_waits++;
  VF_ASSERT(g_impl->finishedTaskInfos.empty(), "the engine never blocks while a completion is already queued (lost wake-up)");
  if (!g_impl->finishedTaskInfos.empty()) VF_STOP();
  VF_ASSERT(!g_completed, "the engine never waits when no computing task is left to report (hang)");
  VF_ASSERT(g_R->isInProgressComputing(), "the engine waits only while a task is computing");
  if (g_completed || !g_R->isInProgressComputing()) VF_STOP();
  producerStep();
}
extern "C" void harness_exec(void) {
  uint64_t E = nondet_u64(); VF_ASSUME(E >= 2 && E < (1ull << 62)); g_E = E;
  BuildEngineImpl* impl = newEngine(E); g_impl = impl;
  RuleInfo& I = newRuleInfo(32, 0); g_I = &I;
  I.state = RuleInfo::StateKind::Complete; I.result.builtAt = E; I.result.computedAt = nondet_u64(); VF_ASSUME(I.result.computedAt >= 1 && I.result.computedAt <= E);
  uint8_t inVal = nondet_u8(); I.result.value.reserve(2); I.result.value.push_back(inVal);
  RuleInfo& R = newRuleInfo(16, nondet_u64()); g_R = &R;
  uint64_t B = nondet_u64(); VF_ASSUME(B < E); R.result.builtAt = B; R.result.computedAt = nondet_u64(); VF_ASSUME(B == 0 ? R.result.computedAt < E : R.result.computedAt <= B); const uint64_t C0 = R.result.computedAt;   // Inv(i)
  uint8_t oldVal = nondet_u8(); R.result.value.reserve(2); R.result.value.push_back(oldVal);
  HTask* T = new HTask; g_T = T;
  auto res = impl->taskInfos.emplace(T, TaskInfo(T)); TaskInfo* ti = &res.first->second; ti->forRuleInfo = &R;
  R.state = RuleInfo::StateKind::InProgressWaiting; R.setPendingTaskInfo(ti);
  bool orderOnly = nondet_bool(); bool singleUse = nondet_bool(); VF_ASSUME(!(orderOnly && singleUse));
#ifdef VF_READY_ONLY
  ti->waitCount = 0; impl->readyTaskInfos.push_back(ti);
#else
  ti->waitCount = 1;
  impl->inputRequests.push_back({ ti, orderOnly ? ~(uintptr_t)0 : 7, &I, orderOnly, false, singleUse });
#endif
  impl->ruleInfosToScan.reserve(4); impl->finishedInputRequests.reserve(4); impl->finishedTaskInfos.reserve(4);
  R.result.dependencies.keys.reserve(4); R.result.dependencies.flags.reserve(4); ti->requestedBy.reserve(4); ti->deferredScanRequests.reserve(4);
  g_newValue = nondet_u8(); g_force = nondet_bool();
  bool ok = impl->executeTasks(KeyType("r"));
  vf_observe(ok); vf_observe(T->nev);
  VF_ASSERT(ok, "the pass succeeds");
#ifdef VF_READY_ONLY
  VF_ASSERT(T->nev == 1 && T->ev[0] == EV_INPUTS, "inputs-available exactly once");
  VF_ASSERT(R.result.dependencies.size() == 0, "no dependency recorded");
#else
  if (orderOnly) {
    VF_ASSERT(T->nev == 1 && T->ev[0] == EV_INPUTS, "must-follow input: no value delivered, inputs-available exactly once after it is complete");
  } else {
    VF_ASSERT(T->nev == 2 && T->ev[0] == EV_VALUE && T->evArg[0] == 7 && T->ev[1] == EV_INPUTS, "the requested input is delivered exactly once (with its id), then inputs-available exactly once");
    VF_ASSERT(T->evVal[0] == inVal, "the task sees the input's current value");
  }
  VF_ASSERT(R.result.dependencies.size() == 1 && R.result.dependencies[0].keyID._value == 32 && R.result.dependencies[0].orderOnly == orderOnly && R.result.dependencies[0].singleUse == singleUse,
            "the dependency is recorded once with its key and both flags");
#endif
  VF_ASSERT(g_waits <= 1, "the engine blocks at most once");
  VF_ASSERT(g_completed, "the task did report");
  VF_ASSERT(R.state == RuleInfo::StateKind::Complete && R.result.builtAt == E, "the rule is complete in this build");
  bool changed = g_force || g_newValue != oldVal;
  VF_ASSERT(R.result.value.size() == 1 && R.result.value[0] == (changed ? g_newValue : oldVal), "the value the task produced is stored");
  VF_ASSERT(R.result.computedAt == (changed ? E : C0), "computedAt advances iff the value changed or the change was forced");
  VF_ASSERT(R.result.signature.value == R.rule->signature.value, "the rule's signature is recorded");
  VF_ASSERT(impl->taskInfos.empty() && impl->numOutstandingUnfinishedTasks == 0 && impl->readyTaskInfos.empty() && impl->finishedTaskInfos.empty() && impl->inputRequests.empty() && impl->finishedInputRequests.empty(),
            "nothing is left in any queue and no task is outstanding");
  VF_ASSERT(g_status[(int)Rule::StatusKind::IsComplete] == 1, "completion is reported once");
  VF_WITNESS();
}
