// C01-O2 / C02: processRuleScanRequest over an arbitrary recorded dependency list; the inputs'
// scanRule/demandRule are contract stubs ("input is brought up to date in this build").
#include "eng.h"
#ifndef VF_NDEPS
#define VF_NDEPS 2
#endif
static RuleInfo* g_in[VF_NDEPS + 1]; static int g_scanOrder[VF_NDEPS + 2]; static int g_nscan = 0; static int g_demandOrder[VF_NDEPS + 2]; static int g_ndemand = 0;
static int g_deferAt = -1; static int g_deferKind = 0;   // optional: input g_deferAt is not yet scanned (1) / not yet available (2)
static int idxOf(RuleInfo* r) { for (int i = 0; i < VF_NDEPS; i++) if (g_in[i] == r) return i; return -1; }
extern "C" RuleInfo* stub_getRuleInfoForKey(BuildEngineImpl* impl, uint64_t keyid) {
  VF_ASSERT(keyid >= 32 && keyid % 16 == 0 && (keyid - 32) / 16 < VF_NDEPS, "only recorded dependency keys are looked up");
  if (!(keyid >= 32 && keyid % 16 == 0 && (keyid - 32) / 16 < VF_NDEPS)) VF_STOP();
  return g_in[(keyid - 32) / 16];
}
extern "C" bool stub_scanRule(BuildEngineImpl* impl, RuleInfo* r) {
  int idx = idxOf(r); VF_ASSERT(idx >= 0, "scanRule is applied to a recorded dependency"); if (idx < 0) VF_STOP();
  if (g_nscan < VF_NDEPS + 2) g_scanOrder[g_nscan] = idx; g_nscan++;
  if (idx == g_deferAt && g_deferKind == 1) return false;   // still scanning
  return true;
}
extern "C" bool stub_demandRule(BuildEngineImpl* impl, RuleInfo* r) {
  int idx = idxOf(r); VF_ASSERT(idx >= 0, "demandRule is applied to a recorded dependency"); if (idx < 0) VF_STOP();
  if (g_ndemand < VF_NDEPS + 2) g_demandOrder[g_ndemand] = idx; g_ndemand++;
  if (idx == g_deferAt && g_deferKind == 2) return false;   // in progress
  return true;
}
extern "C" void harness_prsr(void) {
  uint64_t E = nondet_u64(); VF_ASSUME(E >= 2);
  BuildEngineImpl* impl = newEngine(E);
  impl->freeRuleScanRecords.reserve(4);
  impl->freeRuleScanRecords.push_back(new BuildEngineImpl::RuleScanRecord);
  impl->freeRuleScanRecords.push_back(new BuildEngineImpl::RuleScanRecord);
  impl->ruleInfosToScan.reserve(4);
  uint64_t inComputed[VF_NDEPS + 1]; bool oo[VF_NDEPS + 1];
  g_deferKind = nondet_u8() % 3; g_deferAt = g_deferKind ? (int)(nondet_u8() % (VF_NDEPS ? VF_NDEPS : 1)) : -1;
  for (int i = 0; i < VF_NDEPS; i++) {
    RuleInfo& in = newRuleInfo(32 + 16 * i, 0); g_in[i] = &in;
    inComputed[i] = nondet_u64(); VF_ASSUME(inComputed[i] >= 1 && inComputed[i] <= E);
    in.result.computedAt = inComputed[i];
    if (i == g_deferAt && g_deferKind == 1) {           // input still being scanned: has a scan record
      in.state = RuleInfo::StateKind::IsScanning; in.result.builtAt = inComputed[i]; in.setPendingScanRecord(new BuildEngineImpl::RuleScanRecord);
      in.getPendingScanRecord()->deferredScanRequests.reserve(2);
    } else if (i == g_deferAt && g_deferKind == 2) {    // input's task is running: has a task record
      in.state = RuleInfo::StateKind::InProgressWaiting; in.result.builtAt = inComputed[i]; TaskInfo* ti = new TaskInfo(new HTask); ti->forRuleInfo = &in; in.setPendingTaskInfo(ti);
      ti->deferredScanRequests.reserve(2);
    } else { in.state = RuleInfo::StateKind::Complete; in.result.builtAt = E; }   // brought up to date in this build
  }
  RuleInfo& ri = newRuleInfo(16, 0);
  uint64_t B = nondet_u64(); VF_ASSUME(B >= 1 && B < E);
  ri.result.builtAt = B; ri.result.computedAt = nondet_u64(); VF_ASSUME(ri.result.computedAt <= B);
  ri.result.dependencies.keys.reserve(VF_NDEPS + 1); ri.result.dependencies.flags.reserve(VF_NDEPS + 1);
  for (int i = 0; i < VF_NDEPS; i++) { oo[i] = nondet_bool(); KeyID dk; dk._value = 32 + 16 * i; ri.result.dependencies.push_back(dk, oo[i], false); }
  ri.state = RuleInfo::StateKind::IsScanning;
  ri.setPendingScanRecord(impl->newRuleScanRecord());
  impl->processRuleScanRequest(scanRequest(&ri, 0, nullptr, false));
  // oracle: the first non-order-only dependency (in recorded order) whose value changed after B, before any deferral point
  int first = -1;
  for (int i = 0; i < VF_NDEPS; i++) { if (i == g_deferAt) break; if (first < 0 && !oo[i] && inComputed[i] > B) first = i; }
  int stop = first >= 0 ? first : (g_deferAt >= 0 ? g_deferAt : VF_NDEPS - 1);   // last dependency visited
  for (int i = 0; i < g_nscan && i < VF_NDEPS + 2; i++) VF_ASSERT(g_scanOrder[i] == i, "dependencies are scanned in recorded order, each once");
  VF_ASSERT(VF_NDEPS == 0 || g_nscan == stop + 1, "scanning stops at the first changed input or at the deferral point");
  vf_observe((uint64_t)ri.state); vf_observe(g_reasonCount);
  if (first >= 0) {
    VF_ASSERT(ri.state == RuleInfo::StateKind::NeedsToRun, "a changed non-order-only input => NeedsToRun");
    VF_ASSERT(g_reasonCount == 1 && g_reason == (int)Rule::RunReason::InputRebuilt && g_reasonRule == ri.rule.get() && g_reasonInput == g_in[first]->rule.get(), "reported once as InputRebuilt naming the first changed input");
  } else if (g_deferAt >= 0) {
    VF_ASSERT(ri.state == RuleInfo::StateKind::IsScanning && g_reasonCount == 0, "an unavailable input defers the scan: rule stays IsScanning, nothing reported");
    if (g_deferKind == 1) { auto& v = g_in[g_deferAt]->getPendingScanRecord()->deferredScanRequests; VF_ASSERT(v.size() == 1 && v[0].ruleInfo == &ri && v[0].inputIndex == (unsigned)g_deferAt && getOrderOnly(v[0], oo[g_deferAt], 0) == oo[g_deferAt], "the request is parked on that input's scan record, at that index"); }
    else { auto& v = g_in[g_deferAt]->getPendingTaskInfo()->deferredScanRequests; VF_ASSERT(v.size() == 1 && v[0].ruleInfo == &ri && v[0].inputIndex == (unsigned)g_deferAt && getOrderOnly(v[0], oo[g_deferAt], 0) == oo[g_deferAt], "the request is parked on that input's task, at that index"); }
  } else {
    VF_ASSERT(ri.state == RuleInfo::StateKind::DoesNotNeedToRun && g_reasonCount == 0, "no changed input => DoesNotNeedToRun, nothing reported");
  }
  VF_ASSERT(ri.result.builtAt == B && ri.result.dependencies.size() == VF_NDEPS, "scanning does not touch the stored result");
  VF_ASSERT(g_createTask == 0, "scanning never creates a task for the scanned rule");
  VF_WITNESS();
}
