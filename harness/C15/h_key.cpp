// C15-K4: BuildKey makers, accessors and kind tags for names/paths of VF_N arbitrary bytes.
#include "vf.h"
#include "llbuild/BuildSystem/BuildKey.h"
using namespace llbuild; using namespace llbuild::buildsystem;
#ifndef VF_N
#define VF_N 2
#endif
#ifndef VF_CASE
#define VF_CASE 0
#endif
static bool same(llvm::StringRef s, const char* p, unsigned n) { if (s.size() != n) return false; for (unsigned i = 0; i < n; i++) if (s[i] != p[i]) return false; return true; }
extern "C" void harness_key(void) {
  const unsigned n = VF_N;
  char* raw = vf_buffer(n);
  llvm::StringRef name(raw, n);
#if VF_CASE == 0
  uint8_t sel = nondet_u8(); VF_ASSUME(sel < 5);
  BuildKey& k = *new BuildKey(sel == 0 ? BuildKey::makeCommand(name) : sel == 1 ? BuildKey::makeDirectoryContents(name) : sel == 2 ? BuildKey::makeNode(name)
                              : sel == 3 ? BuildKey::makeStat(name) : BuildKey::makeTarget(name));
  const BuildKey::Kind kinds[5] = { BuildKey::Kind::Command, BuildKey::Kind::DirectoryContents, BuildKey::Kind::Node, BuildKey::Kind::Stat, BuildKey::Kind::Target };
  VF_ASSERT(k.getKind() == kinds[sel], "the key has the kind of its maker");
  llvm::StringRef got = sel == 0 ? k.getCommandName() : sel == 1 ? k.getDirectoryPath() : sel == 2 ? k.getNodeName() : sel == 3 ? k.getStatName() : k.getTargetName();
  VF_ASSERT(same(got, raw, n), "the accessor returns the name byte for byte");
  VF_ASSERT(k.getKeyData().size() == n + 1 && k.getKeyData().data()[0] == BuildKey::identifierForKind(kinds[sel]), "encoding is the kind tag followed by the name");
  BuildKey& k2 = *new BuildKey(BuildKey::fromData(k.toData()));
  VF_ASSERT(k2.getKind() == kinds[sel] && k2.getKeyData() == k.getKeyData(), "fromData(toData()) is the identity");
#elif VF_CASE == 1
  // custom task: name and data are both arbitrary byte strings
  const unsigned m = VF_M;
  char* rawd = vf_buffer(m);
  BuildKey& k = *new BuildKey(BuildKey::makeCustomTask(name, llvm::StringRef(rawd, m)));
  VF_ASSERT(k.getKind() == BuildKey::Kind::CustomTask, "custom task kind");
  VF_ASSERT(same(k.getCustomTaskName(), raw, n), "custom task name byte for byte");
  VF_ASSERT(same(k.getCustomTaskData(), rawd, m), "custom task data byte for byte");
  VF_ASSERT(k.getKeyData().size() == 1 + 4 + n + m, "length-prefixed layout");
#elif VF_CASE == 2
  // filtered kinds: path + filter list
  for (unsigned i = 0; i < VF_M; i++) ;
  const unsigned m = VF_M;
  char* f = vf_buffer(m); for (unsigned i = 0; i < m; i++) VF_ASSUME(f[i] != 0);   // filter strings hold no NUL (StringList contract)
  std::vector<std::string>& fl = *new std::vector<std::string>; fl.reserve(2); fl.push_back(std::string(f, m));
  basic::StringList& filters = *new basic::StringList(llvm::ArrayRef<std::string>(fl));
  uint8_t sel = nondet_u8(); VF_ASSUME(sel < 3);
  BuildKey& k = *new BuildKey(sel == 0 ? BuildKey::makeFilteredDirectoryContents(name, filters) : sel == 1 ? BuildKey::makeDirectoryTreeSignature(name, filters)
                              : BuildKey::makeDirectoryTreeStructureSignature(name, filters));
  const BuildKey::Kind kinds[3] = { BuildKey::Kind::FilteredDirectoryContents, BuildKey::Kind::DirectoryTreeSignature, BuildKey::Kind::DirectoryTreeStructureSignature };
  VF_ASSERT(k.getKind() == kinds[sel], "the key has the kind of its maker");
  llvm::StringRef p = sel == 1 ? k.getDirectoryTreeSignaturePath() : k.getFilteredDirectoryPath();
  VF_ASSERT(same(p, raw, n), "the path accessor returns the path byte for byte");
  basic::StringList& back = *new basic::StringList(k.getContentExclusionPatternsAsStringList());
  std::vector<llvm::StringRef>& vals = *new std::vector<llvm::StringRef>(back.getValues());
  VF_ASSERT(vals.size() == 1 && same(vals[0], f, m), "the filter list is recovered");
#else
  // kind tags: identifierForKind/kindForIdentifier are mutually inverse on the nine real kinds, tags pairwise distinct
  uint8_t a = nondet_u8(), b = nondet_u8(); VF_ASSUME(a < 9 && b < 9);
  BuildKey::Kind ka = (BuildKey::Kind)a, kb = (BuildKey::Kind)b;
  VF_ASSERT(BuildKey::kindForIdentifier(BuildKey::identifierForKind(ka)) == ka, "kindForIdentifier inverts identifierForKind");
  VF_ASSERT(a == b || BuildKey::identifierForKind(ka) != BuildKey::identifierForKind(kb), "distinct kinds have distinct tags");
  uint8_t c = nondet_u8();
  BuildKey::Kind kc = BuildKey::kindForIdentifier((char)c);
  VF_ASSERT(kc == BuildKey::Kind::Unknown || BuildKey::identifierForKind(kc) == (char)c, "a byte names at most one kind");
#endif
  vf_observe(n);
  VF_WITNESS();
}
