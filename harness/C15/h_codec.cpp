// C15-K1: scalar, string, FileTimestamp, FileChecksum, FileInfo and CommandSignature codecs:
// encode is canonical little-endian in field order, decode(encode(x)) == x, and
// encode(decode(b)) == b for every byte string b of the right length (so the codec is a bijection).
#include "vf.h"
#include "llbuild/Basic/BinaryCoding.h"
#include "llbuild/Basic/FileInfo.h"
#include "llbuild/Basic/Hashing.h"
using namespace llbuild::basic;
#ifndef VF_CASE
#define VF_CASE 0
#endif
static uint64_t le(const uint8_t* p, unsigned n) { uint64_t v = 0; for (unsigned i = 0; i < n; i++) v |= (uint64_t)p[i] << (8 * i); return v; }
extern "C" void harness_codec(void) {
#if VF_CASE == 0
  // FileInfo: value -> bytes -> value
  FileInfo& a = *new FileInfo;
  a.device = nondet_u64(); a.inode = nondet_u64(); a.mode = nondet_u64(); a.size = nondet_u64();
  a.modTime.seconds = nondet_u64(); a.modTime.nanoseconds = nondet_u64();
  for (int i = 0; i < 32; i++) a.checksum.bytes[i] = nondet_u8();
  BinaryEncoder& enc = *new BinaryEncoder;
  enc.write(a);
  VF_ASSERT(enc.size() == 80, "a FileInfo encodes to exactly 80 bytes");
  const uint8_t* d = enc.data();
  VF_ASSERT(le(d, 8) == a.device && le(d + 8, 8) == a.inode && le(d + 16, 8) == a.mode && le(d + 24, 8) == a.size &&
            le(d + 32, 8) == a.modTime.seconds && le(d + 40, 8) == a.modTime.nanoseconds, "fields are written little-endian in declaration order");
  for (int i = 0; i < 32; i++) VF_ASSERT(d[48 + i] == a.checksum.bytes[i], "checksum bytes follow verbatim");
  BinaryDecoder& dec = *new BinaryDecoder(llvm::StringRef((const char*)d, 80));
  FileInfo& b = *new FileInfo;
  dec.read(b);
  VF_ASSERT(dec.isEmpty(), "decoding consumes exactly the encoding");
  VF_ASSERT(b.device == a.device && b.inode == a.inode && b.mode == a.mode && b.size == a.size && b.modTime.seconds == a.modTime.seconds &&
            b.modTime.nanoseconds == a.modTime.nanoseconds, "every scalar field survives the round trip");
  for (int i = 0; i < 32; i++) VF_ASSERT(b.checksum.bytes[i] == a.checksum.bytes[i], "every checksum byte survives the round trip");
  vf_observe(d[0]);
#elif VF_CASE == 1
  // FileInfo: bytes -> value -> bytes (injectivity of decode, surjectivity of encode)
  char* raw = vf_buffer(80);
  BinaryDecoder& dec = *new BinaryDecoder(llvm::StringRef(raw, 80));
  FileInfo& b = *new FileInfo;
  dec.read(b);
  BinaryEncoder& enc = *new BinaryEncoder;
  enc.write(b);
  VF_ASSERT(enc.size() == 80, "re-encoding has the same length");
  for (int i = 0; i < 80; i++) VF_ASSERT(enc.data()[i] == (uint8_t)raw[i], "re-encoding a decoded record reproduces the bytes");
  vf_observe(enc.data()[0]);
#elif VF_CASE == 2
  // scalars, bool, CommandSignature, FileTimestamp
  uint8_t a8 = nondet_u8(); uint16_t a16 = (uint16_t)nondet_u32(); uint32_t a32 = nondet_u32(); uint64_t a64 = nondet_u64(); bool ab = nondet_bool();
  CommandSignature sig(nondet_u64()); FileTimestamp ts{ nondet_u64(), nondet_u64() };
  BinaryEncoder& enc = *new BinaryEncoder;
  enc.write(a8); enc.write(a16); enc.write(a32); enc.write(a64); enc.write(ab); enc.write(sig); enc.write(ts);
  VF_ASSERT(enc.size() == 1 + 2 + 4 + 8 + 1 + 8 + 16, "scalar widths");
  const uint8_t* d = enc.data();
  VF_ASSERT(d[0] == a8 && le(d + 1, 2) == a16 && le(d + 3, 4) == a32 && le(d + 7, 8) == a64 && d[15] == (ab ? 1 : 0) && le(d + 16, 8) == sig.value, "little-endian scalars");
  BinaryDecoder& dec = *new BinaryDecoder(llvm::StringRef((const char*)d, enc.size()));
  uint8_t b8; uint16_t b16; uint32_t b32; uint64_t b64; bool bb; CommandSignature bsig; FileTimestamp bts;
  dec.read(b8); dec.read(b16); dec.read(b32); dec.read(b64); dec.read(bb); dec.read(bsig); dec.read(bts);
  VF_ASSERT(b8 == a8 && b16 == a16 && b32 == a32 && b64 == a64 && bb == ab && bsig.value == sig.value && bts == ts && dec.isEmpty(), "scalars survive the round trip");
  vf_observe(d[0]);
#else
  // std::string of VF_N arbitrary bytes (NUL included)
  const unsigned n = VF_N;
  char* raw = vf_buffer(n);
  std::string& s = *new std::string(raw, n);
  BinaryEncoder& enc = *new BinaryEncoder;
  enc.write(s);
  VF_ASSERT(enc.size() == 4 + n && le(enc.data(), 4) == n, "length prefix then bytes");
  for (unsigned i = 0; i < n; i++) VF_ASSERT(enc.data()[4 + i] == (uint8_t)raw[i], "string bytes verbatim");
  BinaryDecoder& dec = *new BinaryDecoder(llvm::StringRef((const char*)enc.data(), enc.size()));
  std::string& t = *new std::string;
  dec.read(t);
  VF_ASSERT(t.size() == n && dec.isEmpty(), "string length survives");
  for (unsigned i = 0; i < n; i++) VF_ASSERT(t[i] == raw[i], "string bytes survive");
  vf_observe(n);
#endif
  VF_WITNESS();
}
