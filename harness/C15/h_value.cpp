// C15-K3: BuildValue encode/decode per payload shape.
#include "vf.h"
#include "llbuild/BuildSystem/BuildValue.h"
using namespace llbuild; using namespace llbuild::buildsystem; using llbuild::basic::FileInfo;
#ifndef VF_KIND
#define VF_KIND 0
#endif
#ifndef VF_N
#define VF_N 1
#endif
#ifndef VF_NS
#define VF_NS 1
#endif
#ifndef VF_M
#define VF_M 1
#endif
static void fill(FileInfo& a) {
  a.device = nondet_u64(); a.inode = nondet_u64(); a.mode = nondet_u64(); a.size = nondet_u64(); a.modTime.seconds = nondet_u64(); a.modTime.nanoseconds = nondet_u64();
  for (int i = 0; i < 32; i++) a.checksum.bytes[i] = nondet_u8();
}
static bool eqAll(const FileInfo& a, const FileInfo& b) {
  bool r = a.device == b.device && a.inode == b.inode && a.mode == b.mode && a.size == b.size && a.modTime.seconds == b.modTime.seconds && a.modTime.nanoseconds == b.modTime.nanoseconds;
  for (int i = 0; i < 32; i++) if (a.checksum.bytes[i] != b.checksum.bytes[i]) r = false;
  return r;
}
static void sameBytes(const core::ValueType& x, const core::ValueType& y) {
  VF_ASSERT(x.size() == y.size(), "re-encoding has the same length (canonical)");
  for (size_t i = 0; i < x.size(); i++) if (i < y.size()) VF_ASSERT(x[i] == y[i], "re-encoding is byte-identical (canonical)");
}
extern "C" void harness_value(void) {
  // the kind is concrete per query (VF_KIND = 0..17, one query each) so that every encoder
  // position is concrete; the whole payload is symbolic
  const uint8_t K = VF_KIND;
  const BuildValue::Kind kind = (BuildValue::Kind)K;
  const bool hasSig = K == 5 || K == 6 || K == 17, hasInfos = K == 2 || K == 10 || K == 17 || K == 4, hasStrings = K == 4 || K == 7 || K == 16;
  uint64_t sig = nondet_u64();
  const unsigned n = hasInfos ? (K == 2 || K == 4 ? 1 : VF_N) : 0;
  FileInfo* infos = new FileInfo[n ? n : 1]; for (unsigned i = 0; i < n; i++) fill(infos[i]);
  if (K == 2) VF_ASSUME(!infos[0].isMissing());
  const unsigned ns = hasStrings ? VF_NS : 0, m = VF_M;
  std::vector<std::string>& strs = *new std::vector<std::string>; strs.reserve(3);
  char* raws[3];
  for (unsigned i = 0; i < ns; i++) { raws[i] = vf_buffer(m); for (unsigned j = 0; j < m; j++) VF_ASSUME(raws[i][j] != 0); strs.push_back(std::string(raws[i], m)); }
  BuildValue* vp;
  if (K == 2) vp = new BuildValue(BuildValue::makeExistingInput(infos[0]));
  else if (K == 4) vp = new BuildValue(BuildValue::makeDirectoryContents(infos[0], llvm::ArrayRef<std::string>(strs)));
  else if (K == 5) vp = new BuildValue(BuildValue::makeDirectoryTreeSignature(basic::CommandSignature(sig)));
  else if (K == 6) vp = new BuildValue(BuildValue::makeDirectoryTreeStructureSignature(basic::CommandSignature(sig)));
  else if (K == 7) vp = new BuildValue(BuildValue::makeStaleFileRemoval(llvm::ArrayRef<std::string>(strs)));
  else if (K == 10) vp = new BuildValue(BuildValue::makeSuccessfulCommand(llvm::ArrayRef<FileInfo>(infos, n)));
  else if (K == 16) vp = new BuildValue(BuildValue::makeFilteredDirectoryContents(llvm::ArrayRef<std::string>(strs)));
  else if (K == 17) vp = new BuildValue(BuildValue::makeSuccessfulCommandWithOutputSignature(llvm::ArrayRef<FileInfo>(infos, n), basic::CommandSignature(sig)));
  else vp = new BuildValue(kind);
  BuildValue& v = *vp;
  core::ValueType& d = *new core::ValueType(v.toData());
  VF_ASSERT(d.size() >= 1 && d[0] == K, "the first byte is the kind tag (distinct kinds never collide)");
  if (!hasStrings) VF_ASSERT(d.size() == 1 + (hasSig ? 8 : 0) + (hasInfos ? 4 + 80 * n : 0), "tag, optional signature, output count and one 80-byte record per output");
  BuildValue& w = *new BuildValue(BuildValue::fromData(d));
  VF_ASSERT(w.getKind() == kind, "the kind survives");
  if (hasSig) VF_ASSERT((K == 5 ? w.getDirectoryTreeSignature().value : K == 6 ? w.getDirectoryTreeStructureSignature().value : w.getOutputSignature().value) == sig, "the signature survives");
  if (hasInfos) {
    VF_ASSERT(w.getNumOutputs() == n, "the number of outputs survives");
    for (unsigned i = 0; i < n; i++) VF_ASSERT(eqAll(w.getNthOutputInfo(i), infos[i]), "every field of every output info survives, in order");
  }
  if (hasStrings) {
    std::vector<llvm::StringRef>& back = *new std::vector<llvm::StringRef>(K == 7 ? w.getStaleFileList() : w.getDirectoryContents());
    VF_ASSERT(back.size() == ns, "the number of strings survives");
    for (unsigned i = 0; i < ns; i++) if (i < back.size()) { VF_ASSERT(back[i].size() == m, "string length survives"); for (unsigned j = 0; j < m; j++) VF_ASSERT(back[i][j] == raws[i][j], "string bytes survive"); }
  }
  sameBytes(d, *new core::ValueType(w.toData()));
  vf_observe(d.size());
  VF_WITNESS();
}
