// Contract model of llvm::DenseSet for the C03/C04 harnesses (see DenseMap.h next to it): an insertion-ordered array of at most
// 8 elements compared with DenseMapInfo equality.
#pragma once
#include "llvm/ADT/DenseMapInfo.h"
#include <utility>
namespace llvm {
template <typename ValueT, typename ValueInfoT = DenseMapInfo<ValueT>>
class DenseSet {
public:
  typedef ValueT* iterator; typedef const ValueT* const_iterator;
private:
  ValueT items[8]; unsigned n = 0;
  int idx(const ValueT& v) const { for (unsigned i = 0; i < n; i++) if (ValueInfoT::isEqual(items[i], v)) return (int)i; return -1; }
public:
  iterator end() { return items + 8; } const_iterator end() const { return items + 8; }
  iterator begin() { return n ? items : end(); } const_iterator begin() const { return n ? items : end(); }
  unsigned size() const { return n; } bool empty() const { return n == 0; }
  unsigned count(const ValueT& v) const { return idx(v) < 0 ? 0 : 1; }
  iterator find(const ValueT& v) { int i = idx(v); return i < 0 ? end() : &items[i]; }
  std::pair<iterator, bool> insert(const ValueT& v) {
    int i = idx(v); if (i >= 0) return std::make_pair(&items[i], false);
    __CPROVER_assert(n < 8, "model: more than 8 set elements (outside bound)"); if (n >= 8) __CPROVER_assume(false);
    items[n] = v; return std::make_pair(&items[n++], true);
  }
  bool erase(const ValueT& v) { int i = idx(v); if (i < 0) return false; for (unsigned k = (unsigned)i; k + 1 < n; k++) items[k] = items[k + 1]; n--; return true; }
  void clear() { n = 0; }
};
template <typename ValueT, unsigned InlineBuckets = 4, typename ValueInfoT = DenseMapInfo<ValueT>>
class SmallDenseSet : public DenseSet<ValueT, ValueInfoT> {};
}
