// Contract model of llvm::DenseMap for the C03/C04 harnesses (found first on the include path).
// LLVM's hash table is environment code; SQLiteBuildDB only needs a finite map keyed by DenseMapInfo
// equality.  The model is an insertion-ordered array of at most 8 pairs ("outside bound" beyond).
#pragma once
#include "llvm/ADT/DenseMapInfo.h"
namespace llvm {
template <typename KeyT, typename ValueT, typename KeyInfoT = DenseMapInfo<KeyT>>
class DenseMap {
public:
  struct value_type { KeyT first; ValueT second; };
  typedef value_type* iterator;
private:
  value_type items[8]; unsigned n = 0;
public:
  iterator end() { return items + 8; }
  iterator begin() { return n ? items : end(); }
  unsigned size() const { return n; }
  bool empty() const { return n == 0; }
  iterator find(const KeyT& k) { for (unsigned i = 0; i < n; i++) if (KeyInfoT::isEqual(items[i].first, k)) return &items[i]; return end(); }
  ValueT& operator[](const KeyT& k) {
    iterator it = find(k); if (it != end()) return it->second;
    __CPROVER_assert(n < 8, "model: more than 8 map entries (outside bound)"); if (n >= 8) __CPROVER_assume(false);
    items[n].first = k; items[n].second = ValueT(); return items[n++].second;
  }
  void clear() { n = 0; }
};
}
