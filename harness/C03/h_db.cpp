// C03-R1..R5 / C04-T1,T3: SQLiteBuildDB over the row model.
#include "vf.h"
#include VF_REPO_SRC(lib/Core/SQLiteBuildDB.cpp)
unsigned char g_keyBytes[3][4]; unsigned g_keyLen[3];      // the keys of this query (shared with the row model)
#include "sqlite_model.h"
#ifndef VF_CASE
#define VF_CASE 0
#endif
#ifndef VF_KS
#define VF_KS 0
#endif
#ifndef VF_RECREATE
#define VF_RECREATE 1
#endif
#ifndef VF_SAMEDEP
#define VF_SAMEDEP 0
#endif
// VF_SAMEDEP: every dependency names the SAME key (a task may request one input twice, with different flags)
#define DEPK(i) (VF_SAMEDEP ? 0 : (i))
#ifndef VF_FL
#define VF_FL 0
#endif
#ifndef VF_NV
#define VF_NV 1
#endif
// engine side: three keys with arbitrary bytes; KeyIDs are arbitrary distinct non-zero numbers
static uint64_t g_keyId[3];
struct HDelegate : public BuildDBDelegate {
  const KeyID getKeyID(const KeyType& key) override {
    for (int i = 0; i < 3; i++) if (key.size() == g_keyLen[i]) {
      bool eq = true; for (unsigned j = 0; j < 4; j++) if (j < g_keyLen[i] && (unsigned char)key.data()[j] != g_keyBytes[i][j]) eq = false;
      VF_ASSERT(eq, "a key read back from the database has exactly the bytes that were stored"); if (!eq) VF_STOP();
      KeyID k; k._value = g_keyId[i]; return k; }
    VF_ASSERT(false, "a key read back from the database is one that was stored (never a fabricated key)"); VF_STOP(); return KeyID();
  }
  KeyType getKeyForID(const KeyID id) override {
    for (int i = 0; i < 3; i++) if (id._value == g_keyId[i]) return KeyType((const char*)g_keyBytes[i], g_keyLen[i]);
    VF_ASSERT(false, "harness: unknown engine key id"); VF_STOP(); return KeyType();
  }
};
struct HRule : public Rule { HRule(const KeyType& k) : Rule(k) {} Task* createTask(BuildEngine&) override { return nullptr; } bool isResultValid(BuildEngine&, const ValueType&) override { return true; } };
extern "C" void stub_errmsg(std::string* out, void* self) { new (out) std::string("E"); }
extern "C" void stub_twine_str(std::string* out, void* tw) { new (out) std::string("T"); }
extern "C" void stub_to_string_i(std::string* out, int v) { new (out) std::string("N"); }     // message formatting only
extern "C" void stub_to_string_u(std::string* out, unsigned v) { new (out) std::string("N"); }
static SQLiteBuildDB* newDB(bool recreate, uint32_t client) { SQLiteBuildDB* d = new SQLiteBuildDB("p", client, recreate); d->attachDelegate(new HDelegate); return d; }
static void freshSchema(uint32_t client) { m_info.exists = true; m_info.tables = true; m_info.version = 17; m_info.client_version = client; m_info.iteration = 0; }
static uint64_t dbits(double d) { uint64_t u; memcpy(&u, &d, 8); return u; }
extern "C" void vf_havoc_scalars_SQLiteBuildDB(void*);
extern "C" void harness_db(void) {
  // Key bytes are CONCRETE per query (VF_KS selects a triple): which table row a key selects must be
  // concrete for the encoding to stay small.  The triples contain NUL bytes, a key that is a prefix of
  // another one, and the empty key; everything else (values, epochs, signature, flags, timestamps) is symbolic.
  // (the three keys of a triple have pairwise distinct lengths: see keyIdxByBlob in the row model)
  static const struct { const char* k[3]; unsigned n[3]; } KS[4] = {
    { { "a", "d\0", "" }, { 1, 2, 0 } },             // trailing NUL; the empty key as a dependency
    { { "\0b", "b", "" }, { 2, 1, 0 } },             // leading NUL
    { { "", "x\0y", "x" }, { 0, 3, 1 } },           // empty rule key, embedded NUL next to its NUL-free prefix
    { { "\xff\x80", "1", "1.0" }, { 2, 1, 3 } },    // high bytes; numeric-looking keys (distinct rows in this model; SQLite affinity is outside)
  };
  for (int i = 0; i < 3; i++) { g_keyLen[i] = KS[VF_KS].n[i]; for (unsigned j = 0; j < g_keyLen[i]; j++) g_keyBytes[i][j] = (unsigned char)KS[VF_KS].k[i][j]; g_keyId[i] = 0x1000 * (i + 1); }
#if VF_CASE == 1
  uint32_t client = nondet_u32();
#else
  uint32_t client = 7;   // the client version only matters to the version gate (case 1)
#endif
  std::string err;
#if VF_CASE == 0
  // R1 round trip (+ T1/T3 monitors): write in one "process", read back in another (fresh object, same tables)
  freshSchema(client);
  Result in; in.value.reserve(4); for (unsigned i = 0; i < VF_NV; i++) in.value.push_back(nondet_u8());
  in.signature = basic::CommandSignature(nondet_u64()); in.builtAt = nondet_u64(); in.computedAt = nondet_u64();
  VF_ASSUME(in.builtAt != 0 && in.builtAt < (1ull << 63) && in.computedAt < (1ull << 63));
  uint64_t sb = nondet_u64(), eb = nondet_u64(); memcpy(&in.start, &sb, 8); memcpy(&in.end, &eb, 8);
  bool oo[2], su[2]; in.dependencies.keys.reserve(3); in.dependencies.flags.reserve(3);
  // (the two flags of each dependency are concrete per query - VF_FL, two bits per dependency: the packed word then stays a constant
  //  for symex all the way through the blob and back, and which key a dependency names is never a symbolic choice)
  for (int i = 0; i < VF_ND; i++) { oo[i] = (VF_FL >> (2 * i)) & 1; su[i] = (VF_FL >> (2 * i + 1)) & 1; KeyID dk; dk._value = g_keyId[1 + DEPK(i)]; in.dependencies.push_back(dk, oo[i], su[i]); }
  KeyID k0; k0._value = g_keyId[0];
  HRule& rule = *new HRule(KeyType((const char*)g_keyBytes[0], g_keyLen[0]));
  SQLiteBuildDB* w = newDB(true, client);
  VF_ASSERT(w->buildStarted(&err), "the build transaction starts");
#ifdef VF_HAVOC
  // T3 as an inductive step: the result is written from ANY state the database object's own integer members can be in, not only the
  // state of a freshly opened object (a counter that makes every n-th write commit is then at n-1); the members this harness knows
  // are re-established, see prep_ir.py "state havoc"
  vf_havoc_scalars_SQLiteBuildDB(w); w->clientSchemaVersion = client; w->recreateOnUnmatchedVersion = true;
#endif
  m_trackOps = true;
  bool ok = w->setRuleResult(k0, rule, in, &err);
  m_trackOps = false;
#if defined(VF_PROBE) && VF_PROBE == 1
  VF_WITNESS(); return;
#endif
  VF_ASSERT(ok && err.empty(), "the result is written");
  VF_ASSERT(m_txnControlInOps == 0, "writing a result neither commits nor reopens the build transaction");
  VF_ASSERT(m_danglingRefs == 0, "key rows exist before the result row that refers to them (rule key and every dependency)");
  w->buildComplete();
  VF_ASSERT(m_mutationsOutsideTxn == 0 && !m_inTxn && m_ends == 1, "every write of the build happened inside its one transaction, which is then closed");
  SQLiteBuildDB* r = newDB(true, client);
#if defined(VF_PROBE) && VF_PROBE == 3
  VF_WITNESS(); return;
#endif
  Result out; out.dependencies.keys.reserve(3); out.dependencies.flags.reserve(3); out.value.reserve(4);
  bool found = r->lookupRuleResult(k0, rule.key, &out, &err);
#if defined(VF_PROBE) && VF_PROBE == 2
  VF_WITNESS(); return;
#endif
  VF_ASSERT(found && err.empty(), "a later process finds the stored result");
  VF_ASSERT(out.builtAt == in.builtAt && out.computedAt == in.computedAt && out.signature.value == in.signature.value, "epochs and signature are read back identically");
  VF_ASSERT(dbits(out.start) == sb && dbits(out.end) == eb, "timestamps are read back bit for bit");
  VF_ASSERT(out.value.size() == VF_NV, "value length is read back"); for (unsigned i = 0; i < VF_NV; i++) VF_ASSERT(out.value[i] == in.value[i], "value bytes are read back");
  VF_ASSERT(out.dependencies.size() == VF_ND, "the dependency count is read back");
  for (int i = 0; i < VF_ND; i++) VF_ASSERT(out.dependencies[i].keyID._value == g_keyId[1 + DEPK(i)] && out.dependencies[i].orderOnly == oo[i] && out.dependencies[i].singleUse == su[i], "dependencies are read back in order with both flags");
  // second lookup in the same process takes the fast path and must agree
  Result out2; out2.dependencies.keys.reserve(3); out2.dependencies.flags.reserve(3); out2.value.reserve(4);
  bool found2 = r->lookupRuleResult(k0, rule.key, &out2, &err);
  VF_ASSERT(found2 && out2.builtAt == in.builtAt && out2.computedAt == in.computedAt && out2.signature.value == in.signature.value && out2.dependencies.size() == VF_ND && out2.value.size() == VF_NV, "the fast path returns the same record");
  for (int i = 0; i < VF_ND; i++) VF_ASSERT(out2.dependencies[i].keyID._value == g_keyId[1 + DEPK(i)] && out2.dependencies[i].orderOnly == oo[i] && out2.dependencies[i].singleUse == su[i], "fast path: dependencies in order with both flags");
  vf_observe(out.value.size());
#elif VF_CASE == 1
  // R3 version gate
  m_info.tables = nondet_bool(); m_info.exists = m_info.tables && nondet_bool(); m_info.version = (int)nondet_u32(); m_info.client_version = nondet_u32(); m_info.iteration = 5;
  const bool recreate = VF_RECREATE;   // concrete per query
  bool matches = m_info.tables && m_info.exists && m_info.version == 17 && m_info.client_version == client;
  SQLiteBuildDB* d = newDB(recreate, client);
  bool ok = false; uint64_t ep = d->getCurrentEpoch(&ok, &err);
  if (matches) VF_ASSERT(ok && ep == 5 && m_unlinks == 0 && m_ddl == 0, "a database of the right schema and client version is used as it is");
  else if (!recreate) VF_ASSERT(!ok && m_unlinks == 0 && m_ddl == 0 && m_prepares == 1, "a mismatching database is rejected with an error; nothing beyond the version row is read");
  else {
    VF_ASSERT(ok && ep == 0, "a mismatching database is recreated empty");
    VF_ASSERT(m_unlinks == 1 && m_ddl >= 3 && m_begins == 1 && m_ends == 1 && m_mutationsOutsideTxn == 0, "the old file is removed and the schema is created inside one exclusive transaction");
  }
  vf_observe(ok);
#elif VF_CASE == 2
  // R4 lock gate
  freshSchema(client); m_failBegin = nondet_bool();
  SQLiteBuildDB* d = newDB(true, client);
  bool ok = d->buildStarted(&err);
  VF_ASSERT(m_begins == 1, "a build takes the exclusive lock exactly once");
  VF_ASSERT(ok == !m_failBegin, "a build cannot start while the database is held by another build");
  vf_observe(ok);
#else
  // R5 blob width: a stored dependency blob that is not a whole number of 8-byte entries is an error, never a guess
  freshSchema(client);
  m_keys[0].used = true; m_keys[0].id = 1; m_keys[0].key.n = g_keyLen[0]; memcpy(m_keys[0].key.b, g_keyBytes[0], g_keyLen[0]); m_nextKeyId = 2;
  m_res[0].used = true; m_res[0].key_id = 1; m_res[0].built_at = 3; m_res[0].deps.n = VF_NV; for (int i = 0; i < VF_NV; i++) m_res[0].deps.b[i] = nondet_u8();
  SQLiteBuildDB* d = newDB(true, client);
  KeyID k0; k0._value = g_keyId[0];
  Result out; out.dependencies.keys.reserve(3); out.dependencies.flags.reserve(3);
  bool found = d->lookupRuleResult(k0, KeyType((const char*)g_keyBytes[0], g_keyLen[0]), &out, &err);
  if (VF_NV % 8 != 0) VF_ASSERT(!found && !err.empty(), "a malformed dependency blob is an error");
  vf_observe(found);
#endif
  VF_WITNESS();
}
