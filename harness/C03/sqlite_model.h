// Row model of the SQLite database behind lib/Core/SQLiteBuildDB.cpp: the sqlite3_* entry points
// the file uses are defined here over three small tables.  SQLite itself (pager, journal, locking,
// type affinity) is NOT modelled: a transaction is a flag, a failed call is an arbitrary return code.
//
// Which bind index / result column means which table column is fixed below and tied to the SQL
// text: every statement the code prepares is compared with the text this model was written for;
// a different text ends the run as "outside bound" (the check is then inconclusive, never green).
#pragma once
#include <sqlite3.h>
#include <string.h>
enum StmtKind { S_NONE = 0, S_SEL_VERSION, S_SEL_ITER, S_UPD_ITER, S_FIND_KEYID, S_FIND_KEYNAME, S_INS_KEY, S_INS_RESULT, S_DEL_KEY, S_FIND_RESULT, S_FAST_FIND_RESULT, S_KEYS_WITH_RESULT, S_SEL_KEYS };
#define MAXB 4
struct Blob { unsigned char b[17]; int n; bool isnull; };     // b[n] == 0 always: SQLite guarantees a terminator after the bytes sqlite3_column_text / _blob return
struct KeyRow { bool used; long long id; Blob key; };
struct ResRow { bool used; long long key_id; Blob value; long long signature, built_at, computed_at; double start, end; Blob deps; };
static struct { bool exists; int version; unsigned client_version; long long iteration; bool tables; } m_info;
static KeyRow m_keys[4]; static ResRow m_res[2]; static long long m_nextKeyId = 1; static long long m_lastRowid = 0;
static bool m_open = false, m_inTxn = false; static int m_unlinks = 0, m_opens = 0, m_begins = 0, m_ends = 0, m_ddl = 0, m_prepares = 0, m_mutationsOutsideTxn = 0, m_danglingRefs = 0, m_txnControlInOps = 0;
static bool m_failBegin = false; static bool m_trackOps = false;
struct sqlite3 { int dummy; }; static sqlite3 m_db;
struct sqlite3_stmt { int kind; long long i64[9]; double dbl[9]; Blob blob[9]; int cursor; bool done; int row; };

static bool sqlIs(const char* a, const char* b) { return strcmp(a, b) == 0; }
static void mutation() { if (!m_inTxn) m_mutationsOutsideTxn++; }
// (rows are named by index, never by pointer difference: symex does not fold `p - base`, and a symbolic row index makes every column symbolic)
// The rows keep the key bytes as the CONSTANTS of the harness's key table (after asserting that these are the bytes given):
// what comes back through sqlite3_column_text is then a constant string for symex, so that e.g. a C-string read of it
// has a concrete length instead of forking on every byte.
extern unsigned char g_keyBytes[3][4]; extern unsigned g_keyLen[3];
static void canonKey(Blob& k) {
  int e = -1; for (int t = 0; t < 3; t++) if ((int)g_keyLen[t] == k.n) e = t;
  VF_ASSERT(e >= 0, "harness: only the keys of this query are stored (outside bound)"); if (e < 0) VF_STOP();
  for (int j = 0; j < 4; j++) if (j < k.n) { VF_ASSERT(k.b[j] == g_keyBytes[e][j], "a key is stored with the bytes the engine gave"); k.b[j] = g_keyBytes[e][j]; }
  k.b[k.n] = 0;
}
static int keyIdxById(long long id) { for (int i = 0; i < 4; i++) if (m_keys[i].used && m_keys[i].id == id) return i; return -1; }
// Key lookup: the harness uses keys of pairwise DISTINCT LENGTHS, so the row is selected by length (a concrete number for symex)
// and the byte comparison - which symex cannot fold once the bytes went through std::string copies - is an ASSERTION about the
// selected row instead of a branch: a key that has the length of a stored key but other bytes is reported, not silently matched.
static int keyIdxByBlob(const Blob& k) {
  for (int i = 0; i < 4; i++) if (m_keys[i].used && m_keys[i].key.n == k.n) {
    bool eq = true; for (int j = 0; j < 16; j++) if (j < k.n && m_keys[i].key.b[j] != k.b[j]) eq = false;
    VF_ASSERT(eq, "a key looked up in the database has exactly the bytes it was stored with"); if (!eq) VF_STOP();
    return i; }
  return -1; }
static int resIdxByKeyId(long long id) { for (int i = 0; i < 2; i++) if (m_res[i].used && m_res[i].key_id == id) return i; return -1; }
static KeyRow* keyById(long long id) { int i = keyIdxById(id); return i < 0 ? 0 : &m_keys[i]; }
static KeyRow* keyByBlob(const Blob& k) { int i = keyIdxByBlob(k); return i < 0 ? 0 : &m_keys[i]; }
extern "C" {
int sqlite3_config(int, ...) { return SQLITE_OK; }
int sqlite3_threadsafe(void) { return 1; }
int sqlite3_open(const char* path, sqlite3** out) { m_opens++; m_open = true; *out = &m_db; return SQLITE_OK; }
int sqlite3_close(sqlite3*) { m_open = false; return SQLITE_OK; }
int sqlite3_busy_timeout(sqlite3*, int) { return SQLITE_OK; }
int sqlite3_get_autocommit(sqlite3*) { return m_inTxn ? 0 : 1; }
int sqlite3_errcode(sqlite3*) { return SQLITE_ERROR; }
const char* sqlite3_errmsg(sqlite3*) { return "e"; }
const char* sqlite3_errstr(int) { return "e"; }
const char* sqlite3_db_filename(sqlite3*, const char*) { return "f"; }
void sqlite3_free(void*) {}
static char m_insertInfoToken[4] = "INS";
char* sqlite3_mprintf(const char* fmt, ...) { return m_insertInfoToken; }   // the INSERT INTO info statement (its arguments are not observable here)
int vf_unlink(const char* path) { m_unlinks++; m_info.exists = false; m_info.tables = false; for (int i = 0; i < 4; i++) m_keys[i].used = false; for (int i = 0; i < 2; i++) m_res[i].used = false; return 0; }
int sqlite3_exec(sqlite3*, const char* sql, int (*)(void*, int, char**, char**), void*, char** err) {
  if (err) *err = (char*)"e";
  if (sqlIs(sql, "BEGIN EXCLUSIVE;")) { if (m_trackOps) m_txnControlInOps++; m_begins++; if (m_failBegin) return SQLITE_BUSY; VF_ASSERT(!m_inTxn, "no nested transaction"); m_inTxn = true; return SQLITE_OK; }
  if (sqlIs(sql, "END;")) { if (m_trackOps) m_txnControlInOps++; m_ends++; VF_ASSERT(m_inTxn, "END only inside a transaction"); m_inTxn = false; return SQLITE_OK; }
  if (sqlIs(sql, "END; BEGIN EXCLUSIVE;") || sqlIs(sql, "COMMIT; BEGIN EXCLUSIVE;") || sqlIs(sql, "COMMIT;")) {   // a commit (and reopening) of the running transaction
    if (m_trackOps) m_txnControlInOps++; m_ends++; VF_ASSERT(m_inTxn, "END only inside a transaction"); m_inTxn = !sqlIs(sql, "COMMIT;"); return SQLITE_OK; }
  if (sql == m_insertInfoToken) { mutation(); m_info.exists = true; m_info.iteration = 0; m_info.version = 17; m_info.client_version = 0; return SQLITE_OK; }
  if (sql[0] == 'C' && sql[1] == 'R') { mutation(); m_ddl++; m_info.tables = true; return SQLITE_OK; }     // CREATE TABLE / INDEX
  VF_ASSERT(false, "model: unexpected SQL passed to sqlite3_exec (outside bound)"); VF_STOP(); return SQLITE_ERROR;
}
static const char* const m_expectedSQL[] = { "",
  "SELECT version,client_version FROM info LIMIT 1", "SELECT iteration FROM info LIMIT 1", "UPDATE info SET iteration = ? WHERE id == 0;",
  "SELECT id FROM key_names WHERE key == ? LIMIT 1;", "SELECT key FROM key_names WHERE id == ? LIMIT 1;", "INSERT OR IGNORE INTO key_names(key) VALUES (?);",
  "INSERT OR REPLACE INTO rule_results VALUES (?, ?, ?, ?, ?, ?, ?, ?);", "DELETE FROM key_names WHERE key == ?;",
  "SELECT rule_results.key_id, value, built_at, computed_at, start, end, dependencies, signature FROM rule_results INNER JOIN key_names ON key_names.id = rule_results.key_id WHERE key == ?;",
  "SELECT key_id, value, built_at, computed_at, start, end, dependencies, signature FROM rule_results WHERE key_id == ?;",
  "SELECT rule_results.key_id, key_names.key, rule_results.value, rule_results.built_at, rule_results.computed_at, rule_results.start, rule_results.end, rule_results.dependencies, rule_results.signature FROM rule_results JOIN key_names WHERE rule_results.key_id == key_names.id;",
  "SELECT key FROM key_names;" };
static bool m_sqlChecked[16]; static sqlite3_stmt m_stmtOf[16];
int sqlite3_prepare_v2(sqlite3*, const char* sql, int, sqlite3_stmt** out, const char**) {
  m_prepares++;
  int k = S_NONE;
  // the class's own statement constants are recognised by address, the three inline literals by a few characters;
  // the full text of each kind is compared once with the text this model was written for
  if (sql == SQLiteBuildDB::findKeyIDForKeyStmtSQL) k = S_FIND_KEYID;
  else if (sql == SQLiteBuildDB::findKeyNameForKeyIDStmtSQL) k = S_FIND_KEYNAME;
  else if (sql == SQLiteBuildDB::insertIntoKeysStmtSQL) k = S_INS_KEY;
  else if (sql == SQLiteBuildDB::insertIntoRuleResultsStmtSQL) k = S_INS_RESULT;
  else if (sql == SQLiteBuildDB::deleteFromKeysStmtSQL) k = S_DEL_KEY;
  else if (sql == SQLiteBuildDB::findRuleResultStmtSQL) k = S_FIND_RESULT;
  else if (sql == SQLiteBuildDB::fastFindRuleResultStmtSQL) k = S_FAST_FIND_RESULT;
  else if (sql == SQLiteBuildDB::getKeysWithResultStmtSQL) k = S_KEYS_WITH_RESULT;
  else if (sql[0] == 'S' && sql[7] == 'v') k = S_SEL_VERSION;
  else if (sql[0] == 'S' && sql[7] == 'i') k = S_SEL_ITER;
  else if (sql[0] == 'U') k = S_UPD_ITER;
  else if (sql[0] == 'S' && sql[7] == 'k') k = S_SEL_KEYS;
  if (k == S_NONE || (!m_sqlChecked[k] && strcmp(sql, m_expectedSQL[k]) != 0)) { VF_ASSERT(false, "model: SQL text differs from the one the row model was written for (outside bound)"); VF_STOP(); }
  m_sqlChecked[k] = true;
  // one model object per statement kind (preparing the same text twice yields the same object: bindings are always reset before use)
  sqlite3_stmt* s = &m_stmtOf[k]; memset(s, 0, sizeof *s); *out = s; s->kind = k;
  if (k == S_SEL_VERSION) return m_info.tables ? SQLITE_OK : SQLITE_ERROR;
  return SQLITE_OK;
}
int sqlite3_finalize(sqlite3_stmt*) { return SQLITE_OK; }
int sqlite3_reset(sqlite3_stmt* s) { s->done = false; s->cursor = 0; return SQLITE_OK; }
int sqlite3_clear_bindings(sqlite3_stmt* s) { for (int i = 0; i < 9; i++) { s->i64[i] = 0; s->blob[i].n = 0; s->blob[i].isnull = true; } return SQLITE_OK; }
int sqlite3_bind_int64(sqlite3_stmt* s, int i, sqlite3_int64 v) { s->i64[i] = v; return SQLITE_OK; }
int sqlite3_bind_double(sqlite3_stmt* s, int i, double v) { s->dbl[i] = v; return SQLITE_OK; }
static int bindBytes(sqlite3_stmt* s, int i, const void* p, int n) { VF_ASSERT(n >= 0 && n <= 16, "model: blob longer than 16 bytes (outside bound)"); if (n < 0 || n > 16) VF_STOP(); s->blob[i].n = n; s->blob[i].isnull = false; for (int k = 0; k < n; k++) s->blob[i].b[k] = ((const unsigned char*)p)[k]; s->blob[i].b[n] = 0; return SQLITE_OK; }
int sqlite3_bind_text(sqlite3_stmt* s, int i, const char* p, int n, void (*)(void*)) { return bindBytes(s, i, p, n); }
int sqlite3_bind_blob(sqlite3_stmt* s, int i, const void* p, int n, void (*)(void*)) { return bindBytes(s, i, p, n); }
sqlite3_int64 sqlite3_last_insert_rowid(sqlite3*) { return m_lastRowid; }
int sqlite3_step(sqlite3_stmt* s) {
  switch (s->kind) {
  case S_SEL_VERSION: return m_info.exists ? SQLITE_ROW : SQLITE_DONE;
  case S_SEL_ITER: return m_info.exists ? SQLITE_ROW : SQLITE_DONE;
  case S_UPD_ITER: mutation(); m_info.iteration = s->i64[1]; return SQLITE_DONE;
  case S_FIND_KEYID: { int k = keyIdxByBlob(s->blob[1]); if (k < 0) return SQLITE_DONE; s->row = k; return SQLITE_ROW; }
  case S_FIND_KEYNAME: { int k = keyIdxById(s->i64[1]); if (k < 0) return SQLITE_DONE; s->row = k; return SQLITE_ROW; }
  case S_INS_KEY: { mutation(); if (keyByBlob(s->blob[1])) return SQLITE_DONE; for (int i = 0; i < 4; i++) if (!m_keys[i].used) { m_keys[i].used = true; m_keys[i].id = m_nextKeyId++; m_keys[i].key = s->blob[1]; canonKey(m_keys[i].key); m_lastRowid = m_keys[i].id; return SQLITE_DONE; }
                    VF_ASSERT(false, "model: key table full (outside bound)"); VF_STOP(); return SQLITE_FULL; }
  case S_INS_RESULT: {
    mutation();
    // referential integrity of what is written: the result's key and every dependency id name a stored key
    if (!keyById(s->i64[1])) m_danglingRefs++;
    for (int k = 0; k + 8 <= s->blob[8].n; k += 8) { unsigned long long raw = 0; for (int j = 0; j < 8; j++) raw |= (unsigned long long)s->blob[8].b[k + j] << (8 * j); if (!keyById((long long)(raw >> 2))) m_danglingRefs++; }
    int ri = resIdxByKeyId(s->i64[1]);
    if (ri < 0) for (int i = 0; i < 2; i++) if (!m_res[i].used) { ri = i; break; }
    VF_ASSERT(ri >= 0, "model: result table full (outside bound)"); if (ri < 0) VF_STOP();
    ResRow* r = &m_res[ri];
    r->used = true; r->key_id = s->i64[1]; r->value = s->blob[2]; r->signature = s->i64[3]; r->built_at = s->i64[4]; r->computed_at = s->i64[5]; r->start = s->dbl[6]; r->end = s->dbl[7]; r->deps = s->blob[8];
    return SQLITE_DONE; }
  case S_FIND_RESULT: { int k = keyIdxByBlob(s->blob[1]); int r = k < 0 ? -1 : resIdxByKeyId(m_keys[k].id); if (r < 0) return SQLITE_DONE; s->row = r; return SQLITE_ROW; }
  case S_FAST_FIND_RESULT: { int r = resIdxByKeyId(s->i64[1]); if (r < 0) return SQLITE_DONE; s->row = r; return SQLITE_ROW; }
  case S_KEYS_WITH_RESULT: { while (s->cursor < 2) { int i = s->cursor++; if (m_res[i].used && keyById(m_res[i].key_id)) { s->row = i; return SQLITE_ROW; } } return SQLITE_DONE; }
  default: VF_ASSERT(false, "model: step on an unmodelled statement (outside bound)"); VF_STOP(); return SQLITE_ERROR;
  }
}
int sqlite3_column_count(sqlite3_stmt* s) { return s->kind == S_KEYS_WITH_RESULT ? 9 : (s->kind == S_FIND_RESULT || s->kind == S_FAST_FIND_RESULT) ? 8 : s->kind == S_SEL_VERSION ? 2 : 1; }
// column maps: FIND_RESULT / FAST_FIND_RESULT: 0 key_id 1 value 2 built_at 3 computed_at 4 start 5 end 6 dependencies 7 signature
//              KEYS_WITH_RESULT: 0 key_id 1 key 2 value 3 built_at 4 computed_at 5 start 6 end 7 dependencies 8 signature
static int col(sqlite3_stmt* s, int c) { return s->kind == S_KEYS_WITH_RESULT ? (c == 0 ? 0 : c == 1 ? 100 : c - 1) : c; }
sqlite3_int64 sqlite3_column_int64(sqlite3_stmt* s, int c) {
  if (s->kind == S_SEL_ITER) return m_info.iteration;
  if (s->kind == S_FIND_KEYID) return m_keys[s->row].id;
  ResRow& r = m_res[s->row];
  switch (col(s, c)) { case 0: return r.key_id; case 2: return r.built_at; case 3: return r.computed_at; case 7: return r.signature; }
  VF_ASSERT(false, "model: integer read of a non-integer column (outside bound)"); VF_STOP(); return 0;
}
int sqlite3_column_int(sqlite3_stmt* s, int c) { if (s->kind == S_SEL_VERSION) return c == 0 ? m_info.version : (int)m_info.client_version; return (int)sqlite3_column_int64(s, c); }
double sqlite3_column_double(sqlite3_stmt* s, int c) { ResRow& r = m_res[s->row]; if (col(s, c) == 4) return r.start; if (col(s, c) == 5) return r.end; VF_ASSERT(false, "model: double read of a non-real column (outside bound)"); VF_STOP(); return 0; }
static Blob* colBlob(sqlite3_stmt* s, int c) {
  if (s->kind == S_FIND_KEYNAME) return &m_keys[s->row].key;
  ResRow& r = m_res[s->row];
  int k = col(s, c);
  if (k == 100) return &keyById(r.key_id)->key;
  if (k == 1) return &r.value; if (k == 6) return &r.deps;
  VF_ASSERT(false, "model: blob read of a non-blob column (outside bound)"); VF_STOP(); return 0;
}
int sqlite3_column_bytes(sqlite3_stmt* s, int c) { return colBlob(s, c)->n; }
const void* sqlite3_column_blob(sqlite3_stmt* s, int c) { return colBlob(s, c)->b; }
const unsigned char* sqlite3_column_text(sqlite3_stmt* s, int c) { return colBlob(s, c)->b; }
}
