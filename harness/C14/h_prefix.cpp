// C14-L1: pathIsPrefixedByPath against a component-wise reference.
#include <string>
#include "vf.h"
namespace llbuild { namespace buildsystem { bool pathIsPrefixedByPath(std::string path, std::string prefixPath); } }
#ifndef VF_LP
#define VF_LP 3
#endif
#ifndef VF_LR
#define VF_LR 2
#endif
static bool isSep(char c) { return c == '/'; }
// reference: root (with at most one trailing separator dropped) is a whole-component prefix of path
static bool refUnder(const char* p, unsigned lp, const char* r, unsigned lr) {
  unsigned k = lr;
  if (k > 1 && isSep(r[k - 1])) k--;            // "/foo/" behaves like "/foo"
  if (lp < k) return false;
  for (unsigned i = 0; i < k; i++) if (p[i] != r[i]) return false;
  if (lp == k) return true;
  return isSep(p[k]) || (k > 0 && isSep(r[k - 1]));
}
extern "C" void harness_prefix(void) {
  char p[VF_LP + 1], r[VF_LR + 1];
  for (unsigned i = 0; i < VF_LP; i++) { uint8_t c = nondet_u8(); VF_ASSUME(c == '/' || c == 'a' || c == 'b'); p[i] = (char)c; }
  for (unsigned i = 0; i < VF_LR; i++) { uint8_t c = nondet_u8(); VF_ASSUME(c == '/' || c == 'a' || c == 'b'); r[i] = (char)c; }
  VF_ASSUME(VF_LR >= 1 && r[0] == '/' && VF_LP >= 1 && p[0] == '/');
  // roots are taken as configured without doubled separators; what "//" inside a
  // root means is not documented, so it is outside the claim (paths may contain it)
  for (unsigned i = 0; i + 1 < VF_LR; i++) VF_ASSUME(!(r[i] == '/' && r[i + 1] == '/'));
  bool got = llbuild::buildsystem::pathIsPrefixedByPath(std::string(p, VF_LP), std::string(r, VF_LR));
  vf_observe(got);
  VF_ASSERT(got == refUnder(p, VF_LP, r, VF_LR), "pathIsPrefixedByPath agrees with the whole-component prefix reference");
  VF_WITNESS();
}
