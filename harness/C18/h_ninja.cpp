// C18 kernels: the validity predicates of the Ninja build driver (lib/Commands/NinjaBuildCommand.cpp).
// VF_CASE 0: buildCommandIsResultValid for a command with VF_K outputs; 1: buildInputIsResultValid.
#include "vf.h"
#include VF_REPO_SRC(lib/Commands/NinjaBuildCommand.cpp)
#include <sys/stat.h>
#ifndef VF_CASE
#define VF_CASE 0
#endif
#ifndef VF_E
#define VF_E 1
#endif
#ifndef VF_I
#define VF_I 0
#endif
#ifndef VF_O
#define VF_O 0
#endif
#ifndef VF_DEPS
#define VF_DEPS 0
#endif
#ifndef VF_KIND
#define VF_KIND 0
#endif
#ifndef VF_K
#define VF_K 1
#endif
// environment: stat answers arbitrarily per path ("o0", "o1")
static struct stat g_st[2]; static int g_rc[2]; static int g_stats = 0;
extern "C" int vf_stat(const char* p, struct stat* buf) { g_stats++; int i = p[1] == '1' ? 1 : 0; if (g_rc[i] == 0) *buf = g_st[i]; return g_rc[i]; }
// hash of the command line: injective on the 0..1-byte strings used here (ideal hash)
extern "C" uint64_t stub_hash_value_sr(const char* p, size_t n) { return n == 0 ? 7 : 1000 + (unsigned char)p[0]; }
static void pickStat(int i) {
  g_st[i].st_dev = nondet_u64(); g_st[i].st_ino = nondet_u64(); g_st[i].st_mode = nondet_u32(); g_st[i].st_size = (off_t)nondet_u64(); g_st[i].st_mtim.tv_sec = (time_t)nondet_u64(); g_st[i].st_mtim.tv_nsec = (long)nondet_u64();
  g_rc[i] = nondet_bool() ? 0 : -1;
}
static FileInfo infoOf(int i) { FileInfo f; memset(&f, 0, sizeof f); if (g_rc[i] != 0) return f; f.device = g_st[i].st_dev; f.inode = g_st[i].st_ino; f.mode = g_st[i].st_mode; f.size = g_st[i].st_size; f.modTime.seconds = g_st[i].st_mtim.tv_sec; f.modTime.nanoseconds = g_st[i].st_mtim.tv_nsec;
  if (f.isMissing()) f.modTime.nanoseconds = 1; return f; }
static bool same(const FileInfo& a, const FileInfo& b) { return a.device == b.device && a.inode == b.inode && a.size == b.size && a.modTime.seconds == b.modTime.seconds && a.modTime.nanoseconds == b.modTime.nanoseconds; }

// ---- engine side of a task, recorded (TaskInterface is the engine's API; the engine itself is C01-C06)
struct Req { uint8_t kind; uint8_t k0, k1; uint64_t klen; uint64_t id; };     // kind: 1 request, 2 mustFollow, 3 discoveredDependency
static Req g_req[8]; static unsigned g_nreq = 0;
static unsigned g_completes = 0, g_spawns = 0, g_failedInc = 0, g_missingReports = 0, g_errors = 0; static bool g_force = false;
static unsigned char g_val[sizeof(BuildValue) + 2 * sizeof(FileInfo)]; static uint64_t g_valLen = 0;
static void rec(uint8_t kind, const core::KeyType* k, uint64_t id) { if (g_nreq < 8) { Req& r = g_req[g_nreq]; r.kind = kind; r.klen = k->size(); r.k0 = k->size() > 0 ? k->data()[0] : 0; r.k1 = k->size() > 1 ? k->data()[1] : 0; r.id = id; } g_nreq++; }
extern "C" void stub_request(core::TaskInterface*, const core::KeyType* k, uintptr_t id) { rec(1, k, id); }
extern "C" void stub_mustFollow(core::TaskInterface*, const core::KeyType* k) { rec(2, k, 0); }
extern "C" void stub_discovered(core::TaskInterface*, const core::KeyType* k) { rec(3, k, 0); }
extern "C" void stub_complete(core::TaskInterface*, core::ValueType* v, bool force) { g_completes++; g_force = force; g_valLen = v->size(); for (size_t i = 0; i < v->size() && i < sizeof g_val; i++) g_val[i] = (*v)[i]; }
static bool g_runJobs = false, g_cancelInQueue = false; static BuildContext* g_ctx = nullptr;
struct HQCtx : public basic::QueueJobContext { unsigned laneID() const override { return 0; } };
extern "C" void stub_spawn_job(core::TaskInterface*, basic::QueueJob* job, int) {
  g_spawns++;
  if (!g_runJobs) return;
  // the execution queue: the job runs later, on a lane; cancellation may arrive while it waits.  (It is run from inside this
  // call because the QueueJob is a temporary of the caller; moving it elsewhere costs symex the identity of the captured pointers.)
  if (g_cancelInQueue) g_ctx->isCancelled = true;
  HQCtx& q = *new HQCtx;
  job->execute(&q);
}
static int g_procStatus = -2; static llvm::Optional<basic::ProcessCompletionFn>* g_fn = nullptr; static unsigned g_procSpawns = 0; static uint64_t g_argc = 0; static char g_arg2 = 0;
extern "C" void stub_spawn_proc(core::TaskInterface*, basic::QueueJobContext*, const StringRef* argv, size_t argc, const void*, size_t, basic::ProcessAttributes attrs, llvm::Optional<basic::ProcessCompletionFn>* fn, basic::ProcessDelegate*) {
  g_procSpawns++; g_fn = fn; g_argc = argc; g_arg2 = argc > 2 && argv[2].size() > 0 ? argv[2][0] : 0;
  // the process ends in an arbitrary way; its completion handler runs (Optional<fn> is a temporary of the caller: call it now)
  basic::ProcessResult r; int st = (int)nondet_u8(); VF_ASSUME(st < 5); r.status = (basic::ProcessStatus)(st - 1); r.exitCode = (int)nondet_u32(); g_procStatus = st - 1;
  if (fn->hasValue()) (**fn)(r);
}
extern "C" void stub_reportMissingInput(BuildContext*, const ninja::Node*) { g_missingReports++; }
extern "C" void stub_incrementFailed(BuildContext*) { g_failedInc++; }
extern "C" void stub_emitError(BuildContext*, const char*) { g_errors++; }
static unsigned g_descriptions = 0;
extern "C" void stub_writeDescription(BuildContext*, ninja::Command*) { g_descriptions++; }
extern "C" void stub_emitStatus(BuildContext*, const char*) {}
extern "C" void stub_emitStatus2(BuildContext*, const char*) {}
static BuildContext* mkContext(ninja::Rule* phony) {
  BuildContext* c = (BuildContext*)calloc(1, sizeof(BuildContext));
  ninja::Manifest* m = (ninja::Manifest*)calloc(1, sizeof(ninja::Manifest));
  m->phonyRule = phony; m->consolePool = (ninja::Pool*)calloc(1, 64);
  new (&c->manifest) std::unique_ptr<ninja::Manifest>(m);
  c->quiet = true; c->numFailedCommandsToTolerate = 1;
  return c;
}
static FileInfo anyInfo() { FileInfo f; memset(&f, 0, sizeof f); f.device = nondet_u64(); f.inode = nondet_u64(); f.mode = nondet_u64(); f.size = nondet_u64(); f.modTime.seconds = nondet_u64(); f.modTime.nanoseconds = nondet_u64(); return f; }
static bool tsLess(const FileTimestamp& a, const FileTimestamp& b) { return a.seconds < b.seconds || (a.seconds == b.seconds && a.nanoseconds < b.nanoseconds); }

// depfile environment: the file exists and holds one rule with one dependency (parser contract as in C11-D3 / C19-H2)
struct HBuf : public llvm::MemoryBuffer { HBuf() { BufferStart = ""; BufferEnd = BufferStart; } BufferKind getBufferKind() const override { return MemoryBuffer_Malloc; } };
static unsigned g_reads = 0, g_parses = 0, g_normalizes = 0; static char g_dep[2]; static bool g_normOK = true;
extern "C" void stub_readFileContents(llvm::Expected<std::unique_ptr<llvm::MemoryBuffer>>* out, const char*, size_t) { g_reads++; new (out) llvm::Expected<std::unique_ptr<llvm::MemoryBuffer>>(std::unique_ptr<llvm::MemoryBuffer>(new HBuf)); }
extern "C" void stub_parse(core::MakefileDepsParser* p) { g_parses++; p->actions.actOnRuleStart(StringRef("o", 1), StringRef("o", 1)); p->actions.actOnRuleDependency(StringRef(g_dep, 2), StringRef(g_dep, 2)); p->actions.actOnRuleEnd(); }
extern "C" bool stub_normalize_path(const char*, size_t, llvm::SmallVectorImpl<char>* tmp) { g_normalizes++; return g_normOK; }      // contract: an absolute, already normal path is left as it is
extern "C" void harness_ninja(void) {
  const unsigned K = VF_K;
  for (unsigned i = 0; i < K; i++) pickStat(i);
  FileInfo stored[2];
  for (unsigned i = 0; i < K; i++) { stored[i].device = nondet_u64(); stored[i].inode = nondet_u64(); stored[i].mode = nondet_u64(); stored[i].size = nondet_u64(); stored[i].modTime.seconds = nondet_u64(); stored[i].modTime.nanoseconds = nondet_u64();
                                     if (nondet_bool()) stored[i] = infoOf(i); }
#if VF_CASE == 0
  ninja::Rule& rule = *new ninja::Rule("r");
  std::vector<ninja::Node*>& outs = *new std::vector<ninja::Node*>; outs.reserve(2);
  outs.push_back(new ninja::Node("o0", "o0")); if (K > 1) outs.push_back(new ninja::Node("o1", "o1"));
  std::vector<ninja::Node*>& ins = *new std::vector<ninja::Node*>;
  ninja::Command& cmd = *new ninja::Command(&rule, outs, ins, 0, 0);
  char c1 = (char)nondet_u8(), c2 = (char)nondet_u8(); bool gen = nondet_bool();
  cmd.setCommandString(llvm::StringRef(&c1, 1)); cmd.setGeneratorFlag(gen);
  const uint8_t kind = VF_KIND;   // successful, failed, skipped: one concrete value shape per query
  BuildValue& v = *new BuildValue(kind == 0 ? (K == 1 ? BuildValue::makeSuccessfulCommand(stored[0], CommandSignature(llvm::StringRef(&c2, 1))) : BuildValue::makeSuccessfulCommand(stored, K, CommandSignature(llvm::StringRef(&c2, 1))))
                                  : kind == 1 ? BuildValue::makeFailedCommand() : BuildValue::makeSkippedCommand());
  core::ValueType& data = *new core::ValueType(v.toValue());
  bool valid = buildCommandIsResultValid(&cmd, data);
  vf_observe(valid);
  bool expect = kind == 0 && (gen || c1 == c2);
  for (unsigned i = 0; i < K; i++) { FileInfo cur = infoOf(i); if (g_rc[i] != 0 || !same(stored[i], cur)) expect = false; }
  VF_ASSERT(valid == expect, "a stored command result is valid exactly when the command succeeded, its command line is unchanged (generator rules excepted) and every output exists with unchanged file information");
#elif VF_CASE == 1
  ninja::Node& node = *new ninja::Node("o0", "o0");
  const uint8_t kind = VF_KIND;
  BuildValue& v = *new BuildValue(kind == 0 ? BuildValue::makeExistingInput(stored[0]) : BuildValue::makeMissingInput());
  core::ValueType& data = *new core::ValueType(v.toValue());
  bool valid = buildInputIsResultValid(&node, data);
  vf_observe(valid);
  FileInfo cur = infoOf(0);
  VF_ASSERT(valid == (kind == 0 && g_rc[0] == 0 && same(stored[0], cur)), "a stored input value is valid exactly when the file existed then, exists now, and its information is unchanged");
#elif VF_CASE == 2
  // ---- start(): explicit and implicit inputs are requested (ids in declaration order), order-only inputs only ordered
  const unsigned E = VF_E, I = VF_I, O = VF_O, NIN = E + I + O;
  ninja::Rule& rule = *new ninja::Rule("r"); ninja::Rule& phony = *new ninja::Rule("phony");
  bool isPhony = nondet_bool();
  BuildContext& ctx = *mkContext(isPhony ? &rule : &phony); ctx.strict = nondet_bool();
  std::vector<ninja::Node*>& outs = *new std::vector<ninja::Node*>; outs.push_back(new ninja::Node("o0", "o0"));
  static const char* names[4] = { "a0", "b1", "c2", "d3" };
  std::vector<ninja::Node*>& ins = *new std::vector<ninja::Node*>; ins.reserve(4);
  uint8_t cyc = nondet_u8();                                   // which input (if any) is also the command's output
  for (unsigned i = 0; i < NIN; i++) ins.push_back(cyc == i ? outs[0] : new ninja::Node(names[i], names[i]));
  ninja::Command& cmd = *new ninja::Command(&rule, outs, ins, E, I);
  core::Task* task = buildCommand(ctx, &cmd);
  core::TaskInterface ti(nullptr, nullptr);
  task->start(ti);
  vf_observe(g_nreq);
  unsigned n = 0;
  for (unsigned i = 0; i < NIN; i++) {
    bool dropped = !ctx.strict && isPhony && cyc == i;             // CMake's self-referential phony edges, tolerated in non-strict mode
    if (dropped) continue;
    VF_ASSERT(n < g_nreq && n < 8, "every declared input is handed to the engine");
    const Req& r = g_req[n++];
    const char* nm = cyc == i ? "o0" : names[i];
    VF_ASSERT(r.klen == 2 && r.k0 == (uint8_t)nm[0] && r.k1 == (uint8_t)nm[1], "inputs are handed to the engine in declaration order, by canonical path");
    if (i < E + I) VF_ASSERT(r.kind == 1 && r.id == i, "explicit and implicit inputs are requested as value dependencies (they trigger rebuilds), with their position as input id");
    else VF_ASSERT(r.kind == 2, "order-only inputs are requested as must-follow (ordering without triggering a rebuild)");
  }
  VF_ASSERT(g_nreq == n && g_completes == 0 && g_spawns == 0, "start() does nothing else");
#elif VF_CASE == 3
  // ---- provideValue* / providePriorValue / inputsAvailable: run, bring up to date without running, or skip
  const unsigned E = VF_E;
  ninja::Rule& rule = *new ninja::Rule("r"); ninja::Rule& phony = *new ninja::Rule("phony");
  BuildContext& ctx = *mkContext(&phony); ctx.strict = nondet_bool(); ctx.simulate = nondet_bool(); bool cancelled = nondet_bool(); ctx.isCancelled = cancelled;
  std::vector<ninja::Node*>& outs = *new std::vector<ninja::Node*>; outs.reserve(2);
  outs.push_back(new ninja::Node("o0", "o0")); if (K > 1) outs.push_back(new ninja::Node("o1", "o1"));
  std::vector<ninja::Node*>& ins = *new std::vector<ninja::Node*>; ins.reserve(2);
  ins.push_back(new ninja::Node("a0", "a0")); if (E > 1) ins.push_back(new ninja::Node("b1", "b1"));
  ninja::Command& cmd = *new ninja::Command(&rule, outs, ins, E, 0);
  char c1 = (char)nondet_u8(), c2 = (char)nondet_u8(); bool gen = nondet_bool();
  cmd.setCommandString(llvm::StringRef(&c1, 1)); cmd.setGeneratorFlag(gen); cmd.setDepsStyle(VF_DEPS ? ninja::Command::DepsStyleKind::GCC : ninja::Command::DepsStyleKind::None);
  core::Task* task = buildCommand(ctx, &cmd);
  core::TaskInterface ti(nullptr, nullptr);
  // the stored value of the previous build, if any: any kind, any hash
  bool hasPrior = nondet_bool(); uint8_t pk = nondet_u8(); VF_ASSUME(pk < 5);
  if (hasPrior) {
    BuildValue& pv = *new BuildValue(BuildValue::makeSuccessfulCommand(anyInfo(), CommandSignature(llvm::StringRef(&c2, 1)))); pv.kind = (BuildValue::BuildValueKind)pk;
    core::ValueType& pd = *new core::ValueType(pv.toValue());
    task->providePriorValue(ti, pd);
  }
  task->start(ti);
  uint8_t ik[2]; FileInfo ii[2];
  for (unsigned i = 0; i < E; i++) {
    ik[i] = nondet_u8(); VF_ASSUME(ik[i] < 5); ii[i] = anyInfo(); if (nondet_bool()) memset(&ii[i], 0, sizeof(FileInfo));      // (a successful command may have left no file)
    BuildValue& v = *new BuildValue(BuildValue::makeExistingInput(ii[i])); v.kind = (BuildValue::BuildValueKind)ik[i];
    core::ValueType& d = *new core::ValueType(v.toValue());
    core::KeyType& key = *new core::KeyType(ins[i]->getCanonicalPath());
    task->provideValue(ti, i, key, d);
  }
  unsigned before = g_nreq;
  task->inputsAvailable(ti);
  vf_observe(g_completes); vf_observe(g_spawns); vf_observe(g_valLen);
  bool anyBad = false, anyMissingInput = false, goodButGone = false; FileTimestamp newest = { 0, 0 };
  for (unsigned i = 0; i < E; i++) {
    bool good = ik[i] == 0 || ik[i] == 2;
    if (!good) { anyBad = true; if (ik[i] == 1) anyMissingInput = true; continue; }
    if (ii[i].isMissing()) goodButGone = true; else if (tsLess(newest, ii[i].modTime)) newest = ii[i].modTime;
  }
  bool hashSame = hasPrior && pk == 2 && c1 == c2;
  bool outsOK = true;
  for (unsigned i = 0; i < K; i++) { FileInfo cur = infoOf(i); if (cur.isMissing()) outsOK = false; else if (ctx.strict ? !tsLess(newest, cur.modTime) : tsLess(cur.modTime, newest)) outsOK = false; }
  VF_ASSERT(g_completes + g_spawns == 1 && g_nreq == before, "the command task ends in exactly one way: one result, or one job to run");
  BuildValue::BuildValueKind rk; memcpy(&rk, g_val, sizeof rk);
  bool updated = g_completes == 1 && rk == BuildValue::BuildValueKind::SuccessfulCommand;
  if (cancelled) VF_ASSERT(g_spawns == 0 && rk == BuildValue::BuildValueKind::SkippedCommand, "a cancelled build starts nothing");
  if (anyBad) VF_ASSERT(g_spawns == 0, "a command with a failed, skipped or missing input is not run (a failing command stops its dependents)");
  if (anyBad && !updated) VF_ASSERT(rk == BuildValue::BuildValueKind::SkippedCommand, "...and records that it was skipped, so that it is retried next time");
  if (!cancelled && !updated && !ctx.simulate && anyMissingInput) VF_ASSERT(g_failedInc == 1 && g_errors == 1, "a missing input is reported and counts as a failure");
  if (!cancelled && !anyBad && !ctx.simulate && !gen && !hashSame) VF_ASSERT(g_spawns == 1, "a command whose command line changed (or that has no stored result) is run again");
  if (!cancelled && !anyBad && !ctx.simulate && (VF_DEPS || goodButGone || !outsOK)) VF_ASSERT(g_spawns == 1, "a command with an output missing or older than an input, or with discovered dependencies, is run");
  if (g_spawns == 1) VF_WITNESS_ALSO("command queued to run");
  if (updated) {
#if !VF_DEPS
    VF_WITNESS_ALSO("brought up to date without running");
#endif
    VF_ASSERT(!cancelled && !VF_DEPS && (gen || hashSame) && !goodButGone && outsOK, "a command is brought up to date without running only if its command line is unchanged, every output exists and none is older than an input");
    VF_ASSERT(!g_force && g_valLen == (K == 1 ? sizeof(BuildValue) : sizeof(BuildValue) + K * sizeof(FileInfo)), "the recorded result has the shape of a command result");
    alignas(8) static unsigned char rvb[sizeof(BuildValue)]; memcpy(rvb, g_val, sizeof(BuildValue)); const BuildValue& rv = *(const BuildValue*)rvb;   // (no BuildValue object: its destructor would free the sender's array)
    VF_ASSERT(rv.numOutputInfos == K && rv.commandHash == CommandSignature(llvm::StringRef(&c1, 1)), "the recorded result carries the current command-line hash and one file record per output");
    for (unsigned i = 0; i < K; i++) { FileInfo cur = infoOf(i); const FileInfo* st = K == 1 ? &rv.valueData.asOutputInfo : (const FileInfo*)(g_val + sizeof(BuildValue)) + i; VF_ASSERT(same(*st, cur) && st->mode == cur.mode, "the recorded result describes the outputs as they are now"); }
  }
  if (!cancelled && !anyBad && !VF_DEPS && (gen || hashSame) && !goodButGone && outsOK) VF_ASSERT(updated, "an up-to-date command (unchanged command line, outputs not older than any input) is not run again");
#elif VF_CASE == 4
  // ---- the job a command task queues: run the shell, then record failure, or the outputs as they are now (restat) and the discovered dependencies
  ninja::Rule& rule = *new ninja::Rule("r"); ninja::Rule& phony = *new ninja::Rule("phony");
  BuildContext& ctx = *mkContext(&phony); bool cancelled = nondet_bool(); ctx.strict = nondet_bool();
  std::vector<ninja::Node*>& outs = *new std::vector<ninja::Node*>; outs.reserve(2);
  outs.push_back(new ninja::Node("o0", "o0")); if (K > 1) outs.push_back(new ninja::Node("o1", "o1"));
  std::vector<ninja::Node*>& ins = *new std::vector<ninja::Node*>; ins.reserve(2);
  ins.push_back(new ninja::Node("/e", "/e")); ins.push_back(new ninja::Node("/o", "/o"));                 // one explicit, one order-only input
  ninja::Command& cmd = *new ninja::Command(&rule, outs, ins, 1, 0);
  char c1 = (char)nondet_u8(); bool restat = nondet_bool();
  cmd.setCommandString(llvm::StringRef(&c1, 1)); cmd.setRestatFlag(restat); cmd.setDepsStyle(VF_DEPS ? ninja::Command::DepsStyleKind::GCC : ninja::Command::DepsStyleKind::None);
  if (VF_DEPS) { cmd.setDepsFile("d"); g_dep[0] = '/'; g_dep[1] = (char)nondet_u8(); g_normOK = nondet_bool(); }
  core::Task* task = buildCommand(ctx, &cmd);
  core::TaskInterface ti(nullptr, nullptr);
  task->start(ti);
  { FileInfo fi = anyInfo(); BuildValue& v = *new BuildValue(BuildValue::makeExistingInput(fi)); core::ValueType& d = *new core::ValueType(v.toValue()); core::KeyType& key = *new core::KeyType(ins[0]->getCanonicalPath()); task->provideValue(ti, 0, key, d); }
  ctx.isCancelled = false; g_ctx = &ctx; g_runJobs = true; g_cancelInQueue = cancelled;      // cancellation may arrive while the job waits in the queue
  unsigned before = g_nreq;
  task->inputsAvailable(ti);                                   // no stored result: the command has to run
  VF_ASSERT(g_spawns == 1, "a command with no stored result is queued to run");
  vf_observe(g_completes); vf_observe(g_procSpawns); vf_observe(g_force);
  BuildValue::BuildValueKind rk; memcpy(&rk, g_val, sizeof rk);
  VF_ASSERT(g_completes == 1, "the job reports exactly one result");
  if (cancelled) { VF_ASSERT(g_procSpawns == 0 && rk == BuildValue::BuildValueKind::SkippedCommand && g_nreq == before, "after cancellation no new process is started; the command is recorded as skipped"); }
  else {
    VF_ASSERT(g_procSpawns == 1 && g_argc == 3 && g_arg2 == c1, "the command line is handed to the shell as it is");
    bool depsFail = VF_DEPS && false;
    if (g_procStatus != 0) VF_ASSERT(rk == BuildValue::BuildValueKind::FailedCommand && g_force && g_nreq == before, "a command that did not succeed is recorded as failed (never as up to date), and the change is propagated");
    else {
      VF_ASSERT(rk == BuildValue::BuildValueKind::SuccessfulCommand && g_force == !restat, "a successful command records a result; dependents are forced to rebuild unless the rule is 'restat'");
      alignas(8) static unsigned char rvb[sizeof(BuildValue)]; memcpy(rvb, g_val, sizeof(BuildValue)); const BuildValue& rv = *(const BuildValue*)rvb;
      VF_ASSERT(g_valLen == (K == 1 ? sizeof(BuildValue) : sizeof(BuildValue) + K * sizeof(FileInfo)) && rv.numOutputInfos == K && rv.commandHash == CommandSignature(llvm::StringRef(&c1, 1)), "the result carries the command-line hash and one file record per output");
      for (unsigned i = 0; i < K; i++) { FileInfo cur = infoOf(i); const FileInfo* st = K == 1 ? &rv.valueData.asOutputInfo : (const FileInfo*)(g_val + sizeof(BuildValue)) + i; VF_ASSERT(same(*st, cur) && st->mode == cur.mode, "the result describes each output as it is after the command ran"); }
      if (VF_DEPS) {
        VF_ASSERT(g_reads == 1 && g_parses == 1 && g_normalizes == 1, "the dependency file the command wrote is read");
        if (g_normOK) { VF_ASSERT(g_nreq == before + 1 && g_req[before].kind == 3 && g_req[before].klen == 2 && g_req[before].k0 == '/' && g_req[before].k1 == (uint8_t)g_dep[1], "every path the dependency file names is registered with the engine as a discovered dependency (also one that is a declared or order-only input)"); VF_WITNESS_ALSO("discovered dependency registered"); }
        else VF_ASSERT(g_nreq == before, "a path that cannot be normalised is not registered");
      } else VF_ASSERT(g_nreq == before && g_reads == 0, "no dependency file is read for a command without one");
    }
  }
#endif
  VF_WITNESS();
}
