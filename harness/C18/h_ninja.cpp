// C18 kernels: the validity predicates of the Ninja build driver (lib/Commands/NinjaBuildCommand.cpp).
// VF_CASE 0: buildCommandIsResultValid for a command with VF_K outputs; 1: buildInputIsResultValid.
#include "vf.h"
#include VF_REPO_SRC(lib/Commands/NinjaBuildCommand.cpp)
#include <sys/stat.h>
#ifndef VF_CASE
#define VF_CASE 0
#endif
#ifndef VF_KIND
#define VF_KIND 0
#endif
#ifndef VF_K
#define VF_K 1
#endif
// environment: stat answers arbitrarily per path ("o0", "o1")
static struct stat g_st[2]; static int g_rc[2]; static int g_stats = 0;
extern "C" int vf_stat(const char* p, struct stat* buf) { g_stats++; int i = p[1] == '1' ? 1 : 0; if (g_rc[i] == 0) *buf = g_st[i]; return g_rc[i]; }
// hash of the command line: injective on the 0..1-byte strings used here (ideal hash)
extern "C" uint64_t stub_hash_value_sr(const char* p, size_t n) { return n == 0 ? 7 : 1000 + (unsigned char)p[0]; }
static void pickStat(int i) {
  g_st[i].st_dev = nondet_u64(); g_st[i].st_ino = nondet_u64(); g_st[i].st_mode = nondet_u32(); g_st[i].st_size = (off_t)nondet_u64(); g_st[i].st_mtim.tv_sec = (time_t)nondet_u64(); g_st[i].st_mtim.tv_nsec = (long)nondet_u64();
  g_rc[i] = nondet_bool() ? 0 : -1;
}
static FileInfo infoOf(int i) { FileInfo f; memset(&f, 0, sizeof f); if (g_rc[i] != 0) return f; f.device = g_st[i].st_dev; f.inode = g_st[i].st_ino; f.mode = g_st[i].st_mode; f.size = g_st[i].st_size; f.modTime.seconds = g_st[i].st_mtim.tv_sec; f.modTime.nanoseconds = g_st[i].st_mtim.tv_nsec;
  if (f.isMissing()) f.modTime.nanoseconds = 1; return f; }
static bool same(const FileInfo& a, const FileInfo& b) { return a.device == b.device && a.inode == b.inode && a.size == b.size && a.modTime.seconds == b.modTime.seconds && a.modTime.nanoseconds == b.modTime.nanoseconds; }
extern "C" void harness_ninja(void) {
  const unsigned K = VF_K;
  for (unsigned i = 0; i < K; i++) pickStat(i);
  FileInfo stored[2];
  for (unsigned i = 0; i < K; i++) { stored[i].device = nondet_u64(); stored[i].inode = nondet_u64(); stored[i].mode = nondet_u64(); stored[i].size = nondet_u64(); stored[i].modTime.seconds = nondet_u64(); stored[i].modTime.nanoseconds = nondet_u64();
                                     if (nondet_bool()) stored[i] = infoOf(i); }
#if VF_CASE == 0
  ninja::Rule& rule = *new ninja::Rule("r");
  std::vector<ninja::Node*>& outs = *new std::vector<ninja::Node*>; outs.reserve(2);
  outs.push_back(new ninja::Node("o0", "o0")); if (K > 1) outs.push_back(new ninja::Node("o1", "o1"));
  std::vector<ninja::Node*>& ins = *new std::vector<ninja::Node*>;
  ninja::Command& cmd = *new ninja::Command(&rule, outs, ins, 0, 0);
  char c1 = (char)nondet_u8(), c2 = (char)nondet_u8(); bool gen = nondet_bool();
  cmd.setCommandString(llvm::StringRef(&c1, 1)); cmd.setGeneratorFlag(gen);
  const uint8_t kind = VF_KIND;   // successful, failed, skipped: one concrete value shape per query
  BuildValue& v = *new BuildValue(kind == 0 ? (K == 1 ? BuildValue::makeSuccessfulCommand(stored[0], CommandSignature(llvm::StringRef(&c2, 1))) : BuildValue::makeSuccessfulCommand(stored, K, CommandSignature(llvm::StringRef(&c2, 1))))
                                  : kind == 1 ? BuildValue::makeFailedCommand() : BuildValue::makeSkippedCommand());
  core::ValueType& data = *new core::ValueType(v.toValue());
  bool valid = buildCommandIsResultValid(&cmd, data);
  vf_observe(valid);
  bool expect = kind == 0 && (gen || c1 == c2);
  for (unsigned i = 0; i < K; i++) { FileInfo cur = infoOf(i); if (g_rc[i] != 0 || !same(stored[i], cur)) expect = false; }
  VF_ASSERT(valid == expect, "a stored command result is valid exactly when the command succeeded, its command line is unchanged (generator rules excepted) and every output exists with unchanged file information");
#else
  ninja::Node& node = *new ninja::Node("o0", "o0");
  const uint8_t kind = VF_KIND;
  BuildValue& v = *new BuildValue(kind == 0 ? BuildValue::makeExistingInput(stored[0]) : BuildValue::makeMissingInput());
  core::ValueType& data = *new core::ValueType(v.toValue());
  bool valid = buildInputIsResultValid(&node, data);
  vf_observe(valid);
  FileInfo cur = infoOf(0);
  VF_ASSERT(valid == (kind == 0 && g_rc[0] == 0 && same(stored[0], cur)), "a stored input value is valid exactly when the file existed then, exists now, and its information is unchanged");
#endif
  VF_WITNESS();
}
