// C17-N3 / C19-H4: evalString (the $-expansion of variable and path strings) against
// a reference written from the Ninja manual, for every string of VF_N bytes over the
// alphabet { $ { } space : newline a _ . 0x80 }.
#include "vf.h"
#ifndef VF_N
#define VF_N 3
#endif
#include VF_REPO_SRC(lib/Ninja/ManifestLoader.cpp)
#define VF_OUTCAP (2 * VF_N + 2)
#include "vf_stream.h"
// event streams: literal output bytes go to g_out (via the stream); look-ups and
// errors are also written into g_out as escape records so that order is compared.
static const unsigned char EV_LOOKUP = 0x01, EV_ERROR = 0x02, EV_END = 0x03;
static unsigned char r_out[VF_OUTCAP]; static unsigned r_n = 0;
// the reference runs after the real function, so each reference event is compared on the spot
static void r_emit(unsigned char c) {
  VF_ASSERT(r_n < g_nout && g_out[r_n < VF_OUTCAP ? r_n : 0] == c, "output bytes, look-up names and errors agree with the reference, in order");
  r_n++;
}
static bool identChar(unsigned char c) { return (c >= 'a' && c <= 'z') || (c >= 'A' && c <= 'Z') || (c >= '0' && c <= '9') || c == '_' || c == '.' || c == '-'; }
static bool simpleChar(unsigned char c) { return (c >= 'a' && c <= 'z') || (c >= 'A' && c <= 'Z') || (c >= '0' && c <= '9') || c == '_' || c == '-'; }
static void reference(const unsigned char* s, unsigned n) {
  unsigned i = 0;
  while (i < n) {
    if (s[i] != '$') { r_emit(s[i]); i++; continue; }
    i++;
    if (i == n) { r_emit(EV_ERROR); return; }
    unsigned char c = s[i];
    if (c == '\n') { i++; while (i < n && s[i] == ' ') i++; continue; }          // line continuation: skip leading spaces
    if (c == ' ' || c == ':' || c == '$') { r_emit(c); i++; continue; }          // single-character escapes
    if (c == '{') {
      unsigned j = i + 1, k = j; bool valid = true;
      while (k < n && s[k] != '}') { if (!identChar(s[k])) valid = false; k++; }
      if (k == n) { r_emit(EV_ERROR); return; }
      if (valid) { r_emit(EV_LOOKUP); for (unsigned t = j; t < k; t++) r_emit(s[t]); r_emit(EV_END); }
      else r_emit(EV_ERROR);
      i = k + 1; continue;
    }
    if (simpleChar(c)) {
      unsigned j = i; while (i < n && simpleChar(s[i])) i++;
      r_emit(EV_LOOKUP); for (unsigned t = j; t < i; t++) r_emit(s[t]); r_emit(EV_END);
      continue;
    }
    r_emit(EV_ERROR); return;
  }
}
extern "C" void harness_eval(void) {
  const unsigned n = VF_N;
  char* buf = (char*)malloc(n); VF_ASSUME(buf != 0);
  for (unsigned i = 0; i < n; i++) {
    uint8_t c = nondet_u8();
    VF_ASSUME(c == '$' || c == '{' || c == '}' || c == ' ' || c == ':' || c == '\n' || c == 'a' || c == '_' || c == '.' || c == 0x80);
    buf[i] = (char)c;
  }
  // token invariant: a newline only ever appears right after '$' inside a string token
  for (unsigned i = 0; i < n; i++) if (buf[i] == '\n') VF_ASSUME(i > 0 && buf[i - 1] == '$' && !(i > 1 && buf[i - 2] == '$'));
  // "${}" (empty name) is not defined by the manual: outside the claim
  for (unsigned i = 0; i + 2 < n; i++) VF_ASSUME(!(buf[i] == '$' && buf[i + 1] == '{' && buf[i + 2] == '}'));
  RecStream& os = *new RecStream;
  typedef ManifestLoader::ManifestLoaderImpl Impl;
  Impl* impl = (Impl*)malloc(8);   // evalString does not touch its object
  impl->evalString(nullptr, StringRef(buf, n), os,
                   [](void*, StringRef name, raw_ostream& r) { vf_emit(EV_LOOKUP); for (size_t i = 0; i < name.size(); i++) vf_emit((unsigned char)name[i]); vf_emit(EV_END);
                                                              VF_ASSERT(name.size() > 0, "look-up of a non-empty name"); },
                   [](const std::string&) { vf_emit(EV_ERROR); });
  reference((const unsigned char*)buf, n);
  VF_ASSERT(r_n == g_nout, "same number of output bytes, look-ups and errors as the reference");
  vf_observe(g_nout);
  VF_WITNESS();
}
