// C19-H5 / C17: a rule variable that refers back to itself (directly, or through another rule variable).  Loading must terminate and
// report the problem through the error callback; it must not recurse without bound (a crash on an input file).
// VF_VIA 0: x = "$x";  1: x = "$y", y = "$x".
#include "vf.h"
#ifndef VF_VIA
#define VF_VIA 0
#endif
#define VF_OUTCAP 16
#include VF_REPO_SRC(lib/Ninja/ManifestLoader.cpp)
#include "vf_stream.h"
typedef ManifestLoader::ManifestLoaderImpl Impl;
static int g_errors = 0; static unsigned g_evals = 0;
struct Acts : public ManifestLoaderActions {
  void initialize(ManifestLoader*) override {}
  void error(StringRef, StringRef, const Token&) override { g_errors++; }
  std::unique_ptr<llvm::MemoryBuffer> readFile(StringRef, StringRef, const Token*) override { return nullptr; }
};
// evalString by its contract on "$" + one-letter names (C17-N3 decides the real one): every "$n" is looked up through the callback
extern "C" void stub_evalString(Impl* self, void* ctx, const char* p, size_t n, llvm::raw_ostream* result, std::function<void(void*, llvm::StringRef, llvm::raw_ostream&)>* lookup, std::function<void(const std::string&)>* error) {
  g_evals++;
  for (size_t i = 0; i < n && i < 4; i++) {
    if (p[i] == '$' && i + 1 < n) { (*lookup)(ctx, llvm::StringRef(p + i + 1, 1), *result); i++; }
    else *result << p[i];
  }
}
struct HBuf : public llvm::MemoryBuffer { HBuf() { BufferStart = ""; BufferEnd = BufferStart; } BufferKind getBufferKind() const override { return MemoryBuffer_Malloc; } };
// error-message formatting (string concatenation) is not the subject: every message is "E"
extern "C" void stub_plus_a(std::string* out, std::string* l, const char* r) { new (out) std::string("E"); }       // string&& + const char*
extern "C" void stub_plus_b(std::string* out, std::string* l, std::string* r) { new (out) std::string("E"); }      // string&& + string&&
extern "C" void stub_plus_c(std::string* out, const char* l, std::string* r) { new (out) std::string("E"); }       // const char* + string&&
extern "C" void stub_plus_d(std::string* out, const std::string* l, const char* r) { new (out) std::string("E"); } // const string& + const char*
extern "C" void harness_recur(void) {
  Acts& acts = *new Acts;
  Impl& L = *new Impl("", "m", acts);
  Scope& fileScope = *new Scope(nullptr);
  L.includeStack.emplace_back(std::unique_ptr<llvm::MemoryBuffer>(new HBuf), std::unique_ptr<Parser>(), fileScope);     // (the error path names the current file)
  Rule& rule = *new Rule("r");
  std::vector<Node*>& outs = *new std::vector<Node*>; outs.push_back(new Node("o", "o"));
  std::vector<Node*>& ins = *new std::vector<Node*>;
  Command& cmd = *new Command(&rule, outs, ins, 0, 0);
  rule.getParameters()["x"] = VF_VIA ? std::string("$y") : std::string("$x");
  if (VF_VIA) rule.getParameters()["y"] = std::string("$x");
  Token& tok = *new Token;
  Impl::LookupContext& ctx = *new Impl::LookupContext{L, &cmd, tok, false};
  RecStream& os = *new RecStream;
  Impl::lookupBuildParameter(&ctx, "x", os);
  vf_observe(g_evals);
  VF_ASSERT(g_errors >= 1, "a rule variable that refers to itself is reported through the error callback");
  VF_ASSERT(g_nout == 0, "a self-referential variable expands to nothing");
  VF_WITNESS();
}
