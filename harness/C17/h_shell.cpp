// C17-N4: appendShellEscapedString: a POSIX-sh word parser applied to the output
// yields exactly the input (one word, no comment, no expansion).
#include "vf.h"
#ifndef VF_N
#define VF_N 3
#endif
#include "llbuild/Basic/ShellUtility.h"
#define VF_OUTCAP (4 * VF_N + 2)
#include "vf_stream.h"
// reference /bin/sh tokenisation of one word (POSIX 2.2-2.3, 2.6): returns false if the
// text is not exactly one plain word (comment, expansion, operator, unterminated quote)
static bool shWord(const unsigned char* s, unsigned n, unsigned char* out, unsigned* nout) {
  unsigned i = 0, k = 0;
  if (n == 0) return false;                     // empty text is no word at all
  if (s[0] == '#') return false;                // a word starting with # begins a comment
  while (i < n) {
    unsigned char c = s[i];
    if (c == '\'') {                            // single quotes: everything literal up to the next quote
      i++;
      while (i < n && s[i] != '\'') out[k++] = s[i++];
      if (i == n) return false;
      i++; continue;
    }
    if (c == '\\') { if (i + 1 >= n) return false; if (s[i + 1] != '\n') out[k++] = s[i + 1]; i += 2; continue; }
    // unquoted: anything special to the shell means the word is not taken literally
    if (c == ' ' || c == '\t' || c == '\n' || c == '"' || c == '$' || c == '`' || c == '|' || c == '&' || c == ';' || c == '<' || c == '>' ||
        c == '(' || c == ')' || c == '*' || c == '?' || c == '[' || c == '~' || c == '{' || c == '}' || c == '!') return false;
    out[k++] = c; i++;
  }
  *nout = k; return true;
}
extern "C" void harness_shell(void) {
  const unsigned n = VF_N;
  char* buf = (char*)malloc(n); VF_ASSUME(buf != 0);
  for (unsigned i = 0; i < n; i++) {
    uint8_t c = nondet_u8();
    VF_ASSUME(c == 'a' || c == '\'' || c == ' ' || c == '$' || c == '\\' || c == '"' || c == '#' || c == '~' || c == '=' || c == '\n' || c == 0x80);
    buf[i] = (char)c;
  }
  RecStream& os = *new RecStream;
  llbuild::basic::appendShellEscapedString(os, llvm::StringRef(buf, n));
  unsigned char word[VF_OUTCAP]; unsigned nw = 0;
  bool ok = shWord(g_out, g_nout, word, &nw);
  for (unsigned i = 0; i < g_nout; i++) vf_observe(g_out[i]);
  VF_ASSERT(ok, "the quoted text is a single literal shell word");
  if (ok) {
    VF_ASSERT(nw == n, "the shell recovers a word of the original length");
    for (unsigned i = 0; i < n; i++) if (i < nw) VF_ASSERT(word[i] == (unsigned char)buf[i], "the shell recovers the original bytes");
  }
  VF_WITNESS();
}
