// Recording raw_ostream: the out-of-line raw_ostream::write overloads are redirected
// (prep_ir --stub) to vf_os_write / vf_os_putc, so every byte a function under test
// prints lands in g_out.  The stream is created unbuffered, so operator<<(char) also
// goes through write(unsigned char).
#pragma once
#include "llvm/Support/raw_ostream.h"
#ifndef VF_OUTCAP
#define VF_OUTCAP 64
#endif
static unsigned char g_out[VF_OUTCAP]; static unsigned g_nout = 0;
static void vf_emit(unsigned char c) {
  VF_ASSERT(g_nout < VF_OUTCAP, "model: output longer than the recorder (outside bound)");
  if (g_nout >= VF_OUTCAP) VF_STOP();
  g_out[g_nout++] = c;
}
extern "C" llvm::raw_ostream* vf_os_write(llvm::raw_ostream* os, const char* p, size_t n) { for (size_t i = 0; i < n; i++) vf_emit((unsigned char)p[i]); return os; }
extern "C" llvm::raw_ostream* vf_os_putc(llvm::raw_ostream* os, unsigned char c) { vf_emit(c); return os; }
struct RecStream : public llvm::raw_ostream {
  RecStream() : llvm::raw_ostream(true) {}
  void write_impl(const char*, size_t) override { VF_ASSERT(false, "write_impl not expected"); }
  uint64_t current_pos() const override { return 0; }
};
#define VF_STREAM_STUBS ['_ZN4llvm11raw_ostream5writeEPKcm=vf_os_write', '_ZN4llvm11raw_ostream5writeEh=vf_os_putc']
