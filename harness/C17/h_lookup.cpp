// C17-N5: variable look-up order and lazy evaluation (lookupBuildParameterImpl).  A build statement of
// rule r expands "command = $x$x"; x may be bound at build level, at rule level (directly or through
// another variable, evaluated at use), and in the enclosing file scope - every combination symbolic.
// Ninja's rules: build-level over rule-level over file-level; rule variables are evaluated lazily in
// the context of the build statement; every reference expands (also the second one).
#include "vf.h"
#ifndef VF_MASK
#define VF_MASK 0
#endif
#define VF_OUTCAP 16
#include VF_REPO_SRC(lib/Ninja/ManifestLoader.cpp)
#include "vf_stream.h"
typedef ManifestLoader::ManifestLoaderImpl Impl;
// evalString by its contract on the strings this harness binds (plain letters and "$" + one-letter names): literal bytes are
// written, every "$n" is looked up through the callback IN ORDER, each time it occurs.  C17-N3 decides the real evalString
// against the Ninja reference for every string; here it would only multiply the cost of the look-up recursion under test.
static unsigned g_evals = 0;
extern "C" void stub_evalString(Impl* self, void* ctx, const char* p, size_t n, llvm::raw_ostream* result, std::function<void(void*, llvm::StringRef, llvm::raw_ostream&)>* lookup, std::function<void(const std::string&)>* error) {
  g_evals++;
  for (size_t i = 0; i < n && i < 8; i++) {
    if (p[i] == '$' && i + 1 < n) { (*lookup)(ctx, llvm::StringRef(p + i + 1, 1), *result); i++; }
    else *result << p[i];
  }
}
static int g_errors = 0;
struct Acts : public ManifestLoaderActions {
  void initialize(ManifestLoader*) override {}
  void error(StringRef, StringRef, const Token&) override { g_errors++; }
  std::unique_ptr<llvm::MemoryBuffer> readFile(StringRef, StringRef, const Token*) override { return nullptr; }
};
extern "C" void harness_lookup(void) {
  Acts& acts = *new Acts;
  Impl& L = *new Impl("", "m", acts);
  Scope& fileScope = *new Scope(nullptr);
  L.includeStack.emplace_back(std::unique_ptr<llvm::MemoryBuffer>(), std::unique_ptr<Parser>(), fileScope);
  Rule& rule = *new Rule("r");
  std::vector<Node*>& outs = *new std::vector<Node*>; outs.push_back(new Node("o", "o"));
  std::vector<Node*>& ins = *new std::vector<Node*>;
  Command& cmd = *new Command(&rule, outs, ins, 0, 0);
  // which levels bind the variable is concrete per query (VF_MASK: hash-table shapes stay concrete); the
  // bound VALUES are symbolic letters
  const bool atBuild = VF_MASK & 1, atRule = VF_MASK & 2, ruleIndirect = VF_MASK & 4, yAtBuild = VF_MASK & 8, atScope = VF_MASK & 16;
  char vb = (char)nondet_u8(), vr = (char)nondet_u8(), vq = (char)nondet_u8(), vs = (char)nondet_u8(), vt = (char)nondet_u8();
  VF_ASSUME(vb >= 'a' && vb <= 'z' && vr >= 'a' && vr <= 'z' && vq >= 'a' && vq <= 'z' && vs >= 'a' && vs <= 'z' && vt >= 'a' && vt <= 'z');
  if (atBuild) cmd.getParameters()["x"] = std::string(1, vb);
  if (atRule) rule.getParameters()["x"] = ruleIndirect ? std::string("$y") : std::string(1, vr);
  if (yAtBuild) cmd.getParameters()["y"] = std::string(1, vq);
  if (atScope) fileScope.insertBinding("x", llvm::StringRef(&vs, 1));
  fileScope.insertBinding("y", llvm::StringRef(&vt, 1));
  rule.getParameters()["command"] = "$x$x";
  Token& tok = *new Token;
  Impl::LookupContext& ctx = *new Impl::LookupContext{L, &cmd, tok, false};
  RecStream& os = *new RecStream;
  Impl::lookupBuildParameter(&ctx, "command", os);
  // reference evaluation
  char e = 0;
  if (atBuild) e = vb;
  else if (atRule) e = ruleIndirect ? (yAtBuild ? vq : vt) : vr;
  else if (atScope) e = vs;
  vf_observe(g_nout);
  VF_ASSERT(g_errors == 0, "no error is reported for a well-formed expansion");
  if (e == 0) VF_ASSERT(g_nout == 0, "an unbound variable expands to nothing");
  else VF_ASSERT(g_nout == 2 && g_out[0] == (unsigned char)e && g_out[1] == (unsigned char)e,
                 "each reference expands to the build-level value, else the rule-level value evaluated at use, else the file-level value - the second reference like the first");
  VF_WITNESS();
}
