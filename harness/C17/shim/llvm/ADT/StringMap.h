// Contract model of llvm::StringMap for the C17-N5 harness (found first on the include path).  LLVM's open-addressing
// table is environment code (its buckets live in calloc'ed raw memory, which costs symex the identity of every entry);
// the Ninja loader only needs a finite map from byte strings to values.  The model is an insertion-ordered array of at
// most 6 entries with keys of at most 8 bytes ("outside bound" beyond); look-up compares length and bytes.
#pragma once
#ifndef VF_SM_KEY
#define VF_SM_KEY 8      // longest key (bytes)
#endif
#include "llvm/ADT/StringRef.h"
#include <utility>
#include <string>
namespace llvm {
template <typename ValueT, typename AllocatorTy = void>
class StringMap {
public:
  struct value_type {
    char keybuf[VF_SM_KEY]; unsigned keylen; ValueT second;
    StringRef getKey() const { return StringRef(keybuf, keylen); }
    StringRef first() const { return getKey(); }
    ValueT& getValue() { return second; }
    const ValueT& getValue() const { return second; }
  };
  typedef value_type* iterator; typedef const value_type* const_iterator;
private:
  value_type items[6]; unsigned n = 0;
  int idx(StringRef k) const { for (unsigned i = 0; i < n; i++) if (items[i].keylen == k.size()) { bool eq = true; for (unsigned j = 0; j < VF_SM_KEY; j++) if (j < k.size() && items[i].keybuf[j] != k[j]) eq = false; if (eq) return (int)i; } return -1; }
public:
  StringMap() {}
  iterator end() { return items + 6; } const_iterator end() const { return items + 6; }
  iterator begin() { return n ? items : end(); } const_iterator begin() const { return n ? items : end(); }
  unsigned size() const { return n; } bool empty() const { return n == 0; }
  iterator find(StringRef k) { int i = idx(k); return i < 0 ? end() : &items[i]; }
  const_iterator find(StringRef k) const { int i = idx(k); return i < 0 ? end() : &items[i]; }
  unsigned count(StringRef k) const { return idx(k) < 0 ? 0 : 1; }
  ValueT lookup(StringRef k) const { int i = idx(k); return i < 0 ? ValueT() : items[i].second; }
  ValueT& operator[](StringRef k) {
    int i = idx(k); if (i >= 0) return items[i].second;
    __CPROVER_assert(n < 6 && k.size() <= VF_SM_KEY, "model: more than 6 map entries or a key longer than 8 bytes (outside bound)"); if (!(n < 6 && k.size() <= VF_SM_KEY)) __CPROVER_assume(false);
    for (unsigned j = 0; j < VF_SM_KEY; j++) items[n].keybuf[j] = j < k.size() ? k[j] : 0;
    items[n].keylen = (unsigned)k.size(); items[n].second = ValueT(); return items[n++].second;
  }
  std::pair<iterator, bool> insert(std::pair<StringRef, ValueT> kv) { int i = idx(kv.first); if (i >= 0) return std::make_pair(&items[i], false); (*this)[kv.first] = kv.second; return std::make_pair(&items[n - 1], true); }
  void clear() { n = 0; }
};
}
