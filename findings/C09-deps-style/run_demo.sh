#!/bin/sh
# Public-tool demonstration of the C09 known finding "deps style enters the signature as a bool".
# usage: run_demo.sh [path to llbuild binary]   (default /repo/_build/bin/llbuild)
# Prints how often the command ran; exits 1 when switching deps-style between two styles that use a
# dependency file does NOT re-run the command (the defect), 0 when it does.
LLB=${1:-/repo/_build/bin/llbuild}
W=$(mktemp -d); cd "$W" || exit 2
mk() { cat > build.llbuild <<EOF
client:
  name: basic
tools: {}
targets:
  "": ["out"]
default: ""
commands:
  C:
    tool: shell
    outputs: ["out"]
    args: sh ./cmd.sh
    deps: d.d
    deps-style: $1
EOF
}
printf 'echo run >> log\ntouch out\necho out: > d.d\n' > cmd.sh
runs() { wc -l < log | tr -d ' '; }
mk makefile;        "$LLB" buildsystem build --serial --db build.db -f build.llbuild > o1.txt 2>&1; echo "build 1 (deps-style makefile):        runs so far $(runs)"
                    "$LLB" buildsystem build --serial --db build.db -f build.llbuild > o2.txt 2>&1; echo "build 2 (unchanged, null build):      runs so far $(runs)"
mk dependency-info; "$LLB" buildsystem build --serial --db build.db -f build.llbuild > o3.txt 2>&1; n3=$(runs); echo "build 3 (deps-style dependency-info):  runs so far $n3"
sed -i 's/deps-style: .*/deps-style: makefile/; s|sh ./cmd.sh|sh ././cmd.sh|' build.llbuild; "$LLB" buildsystem build --serial --db build.db -f build.llbuild > o4.txt 2>&1; echo "build 4 (control: an argument changed): runs so far $(runs)"
cd /; rm -rf "$W"
if [ "$n3" = 1 ]; then echo "DEFECT: the command was not re-run although its deps-style changed (same signature)"; exit 1; fi
echo "ok: the command re-ran when its deps-style changed"; exit 0
