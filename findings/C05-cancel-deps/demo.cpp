// Candidate finding (C05 / C01): a rule whose task was started in a build that is then cancelled keeps its OLD value and
// built-at epoch but has had its recorded dependency list cleared (demandRule clears it when the task starts; setCancelled only
// resets the state).  The next build in the same engine then judges the rule by that truncated list.
// History: out = 10 * x + b.  "x" is always out of date but always computes 5 (its value never changes).  Build 1: out asks for
// "b" then "x": 51.  b becomes 2.  Build 2: the scan finds "b" changed, out runs again (its dependency list is cleared), asks for
// "x" first this time and would ask for "b" when "x" has arrived; "x" is slow and the build is cancelled while out waits for it.
// Build 3 (same engine, after resetForBuild) must return 52, as a fresh engine does.  Observed: 51 - out is judged by the
// truncated list [x], "x" is unchanged, so out is "up to date" with the value of build 1 although "b" changed.
#include "llbuild/Core/BuildEngine.h"
#include <cstdio>
#include <string>
#include <thread>
#include <chrono>
using namespace llbuild; using namespace llbuild::core;
static int g_b = 1; static int g_build = 0; static BuildEngine* g_engine; static int g_outRuns = 0; static std::thread* g_helper = nullptr;
struct T : Task {
  std::string me; int vx = 0, vb = 0; T(std::string m) : me(m) {}
  void start(TaskInterface ti) override { if (me == "out") { if (g_build == 1) ti.request(KeyType("b"), 1); else ti.request(KeyType("x"), 0); } }
  void providePriorValue(TaskInterface, const ValueType&) override {}
  void provideValue(TaskInterface ti, uintptr_t id, const KeyType&, const ValueType& val) override {
    if (id == 0) { vx = val[0]; if (g_build != 1) ti.request(KeyType("b"), 1); } else { vb = val[0]; if (g_build == 1) ti.request(KeyType("x"), 0); }
  }
  void inputsAvailable(TaskInterface ti) override {
    if (me == "b") ti.complete(ValueType{ (uint8_t)g_b });
    else if (me == "x") {
      if (g_build == 2) g_helper = new std::thread([ti]() mutable { g_engine->cancelBuild(); std::this_thread::sleep_for(std::chrono::milliseconds(100)); ti.complete(ValueType{ 5 }); });   // slow; the user hits ^C meanwhile
      else ti.complete(ValueType{ 5 });
    } else { g_outRuns++; ti.complete(ValueType{ (uint8_t)(10 * vx + vb) }); }
  }
};
struct R : Rule {
  R(const KeyType& k) : Rule(k) {}
  Task* createTask(BuildEngine&) override { return new T(key.str()); }
  bool isResultValid(BuildEngine&, const ValueType& v) override { return key.str() == "out" ? true : key.str() == "x" ? false : v[0] == (uint8_t)g_b; }   // b mirrors external state; x is always out of date; out is valid as long as its inputs are
};
struct D : BuildEngineDelegate {
  std::unique_ptr<Rule> lookupRule(const KeyType& k) override { return std::unique_ptr<Rule>(new R(k)); }
  void cycleDetected(const std::vector<Rule*>&) override {}
  void error(const llvm::Twine&) override {}
  std::unique_ptr<basic::ExecutionQueue> createExecutionQueue() override { return nullptr; }
};
int main() {
  D d; BuildEngine e(d); g_engine = &e;
  g_build = 1; ValueType v1 = e.build(KeyType("out")); printf("build 1: %d\n", v1.empty() ? -1 : v1[0]);
  g_b = 2;
  g_build = 2; ValueType v2 = e.build(KeyType("out")); printf("build 2 (cancelled): %s\n", v2.empty() ? "no result" : "a result");
  if (g_helper) g_helper->join();
  e.resetForBuild();
  g_build = 3; int runs0 = g_outRuns; ValueType v3 = e.build(KeyType("out")); printf("build 3: %d (out ran %d time(s))\n", v3.empty() ? -1 : v3[0], g_outRuns - runs0);
  D d2; BuildEngine fresh(d2); g_engine = &fresh; g_build = 4; ValueType vf = fresh.build(KeyType("out")); printf("fresh engine: %d\n", vf.empty() ? -1 : vf[0]);
  bool ok = v1.size() == 1 && v1[0] == 51 && v2.empty() && v3.size() == 1 && vf.size() == 1 && v3[0] == vf[0];
  printf(ok ? "PROPERTY HOLDS\n" : "PROPERTY VIOLATED\n");
  return ok ? 0 : 1;
}
