#!/bin/sh
# build_demo.sh <tree with _build>: exit 0 when the cycle is reported correctly, non-zero (crash or wrong report) otherwise
R=$1; D=$(cd "$(dirname "$0")" && pwd); O=$(mktemp -d)
clang++-16 -std=c++14 -g -O1 -fno-rtti -I$R/include -I$R/lib/llvm -include $R/include/libstdc++14-workaround.h $D/demo.cpp -o $O/demo \
  $R/_build/lib/libllbuildCore.a $R/_build/lib/libllbuildBasic.a $R/_build/lib/libllvmSupport.a $R/_build/lib/libLLVMDemangle.a -lsqlite3 -lpthread -lncurses -ldl 2>$O/err || { cat $O/err; exit 3; }
$O/demo; rc=$?; rm -rf $O; exit $rc
