#!/bin/sh
# run_demo.sh <tree with _build>: loading either manifest must terminate (exit status of the loader is irrelevant, a crash is not)
R=$1; D=$(cd "$(dirname "$0")" && pwd); rc=0
for f in self mutual; do
  ( cd $D && timeout 60 $R/_build/bin/llbuild ninja load-manifest $f.ninja > /tmp/rvr.$f.out 2>&1 ); s=$?
  echo "$f.ninja: exit status $s; $(grep -c . /tmp/rvr.$f.out) lines of output; errors: $(grep -c -i 'error' /tmp/rvr.$f.out)"
  if [ $s -ge 124 ]; then echo "  -> crashed or hung"; rc=1; fi
  rm -f /tmp/rvr.$f.out
done
exit $rc
