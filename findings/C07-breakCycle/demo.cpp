// Demonstration of the defect fixed by "fix: breakCycle reads before the start of the cycle list" (property C07).
// History: build 1 computes "root" (no inputs).  Build 2: "root" is invalid, runs again and now requests "a"; "a" requests "b";
// "b" requests "a" - a cycle of never-built rules with the previously built "root" as a lead-in.  Expected: the build fails and
// the client is told [root, a, b, a].  Unfixed: BuildEngineImpl::breakCycle dereferences *std::next(ruleIt) == *rend() when
// it reaches the first list entry (a rule waiting for an input that has a result from an earlier build) - a read before the
// start of the vector, followed by a use of the garbage as Rule*: crash (or arbitrary behaviour).
#include "llbuild/Core/BuildEngine.h"
#include <cstdio>
#include <string>
#include <vector>
using namespace llbuild; using namespace llbuild::core;
static int g_build = 0; static std::vector<std::string> g_cycle; static int g_cycles = 0;
struct T : Task {
  std::string me; T(std::string m) : me(m) {}
  void start(TaskInterface ti) override {
    if (me == "root" && g_build == 2) ti.request(KeyType("a"), 0);
    if (me == "a") ti.request(KeyType("b"), 0);
    if (me == "b") ti.request(KeyType("a"), 0);
  }
  void providePriorValue(TaskInterface, const ValueType&) override {}
  void provideValue(TaskInterface, uintptr_t, const KeyType&, const ValueType&) override {}
  void inputsAvailable(TaskInterface ti) override { ti.complete(ValueType{ 1 }); }
};
struct R : Rule {
  R(const KeyType& k) : Rule(k) {}
  Task* createTask(BuildEngine&) override { return new T(key.str()); }
  bool isResultValid(BuildEngine&, const ValueType&) override { return false; }
};
struct D : BuildEngineDelegate {
  std::unique_ptr<Rule> lookupRule(const KeyType& k) override { return std::unique_ptr<Rule>(new R(k)); }
  void cycleDetected(const std::vector<Rule*>& items) override { g_cycles++; for (auto* r : items) g_cycle.push_back(r->key.str()); }
  void error(const llvm::Twine&) override {}
  std::unique_ptr<basic::ExecutionQueue> createExecutionQueue() override { return nullptr; }
};
int main() {
  D d; BuildEngine e(d);
  g_build = 1; ValueType v1 = e.build(KeyType("root"));
  if (v1.size() != 1) { printf("build 1 failed\n"); return 2; }
  g_build = 2; ValueType v2 = e.build(KeyType("root"));
  printf("build 2: result size %zu, cycles reported %d:", v2.size(), g_cycles); for (auto& s : g_cycle) printf(" %s", s.c_str()); printf("\n");
  bool ok = v2.empty() && g_cycles == 1 && g_cycle == std::vector<std::string>{ "root", "a", "b", "a" };
  printf(ok ? "PROPERTY HOLDS\n" : "PROPERTY VIOLATED\n");
  return ok ? 0 : 1;
}
