from _bs_common import EXT, HASH_STUBS
PROPERTY = dict(
    jobs=8,   # queries of 3-5 GB each: keep the total well under the machine's memory
    jobs_thorough=6,   # thorough queries need several GB each
    level='model_checking',
    level_text='Bounded model checking of the real ExternalCommand::getSignature over an IDEAL hash: every hash_value/hash_combine instantiation it reaches is redirected to a stub that interns (previous state, data fed) and returns the intern id, so two signatures are equal exactly when the same information was fed in the same order.  For every pair of definitions (name, <= 2 inputs, <= 2 outputs, three flags; strings <= 2 bytes over {a,b}) equal definitions get equal signatures (determinism: nothing but the definition enters) and different definitions get different ones - except the recorded known findings (list boundary; S3: the deps style enters as a bool).  Validity of stored results after a definition change is C01-O1 (signature compared before validity); output tampering is C08-V2.',
    level_note='Trusted: as C08, plus the ideal-hash abstraction: collisions of the real 64-bit hash and its process independence (fixed seed) are NOT decided. ShellCommand::getSignature is covered by S3 for 0..2 arguments, the deps style and the two flags only: environment entries, dependency-file paths and the explicit signature string reach no verdict in 900 s (S3x, not part of the check).',
    bounds='names and node names 0..2 bytes over {a,b}; 0..2 inputs; 0..2 outputs (list lengths concrete per query, quick: 5 shape pairs, thorough: all 45 unordered pairs); three flags; S3 (ShellCommand::getSignature): 0..2 arguments of 0..1 byte over {a,b}, 4 deps styles, inherit-env, can-safely-interrupt, two calls (cache)',
    outside='ShellCommand env / deps paths / explicit signature; pairs of shell definitions of different list shapes; hash collisions; longer lists/strings',
    stubs='llvm::hash_value(StringRef), llvm::hash_combine<...> -> interning transcript',
    assumptions=['the hash function is injective on what it is fed (ideal hash)'],
)
OBLIGATIONS = [
    dict(EXT, name='S2.signature', stubs=EXT['stubs'] + HASH_STUBS, noinline=['ExternalCommand12getSignature'], expect_functions=['ExternalCommand12getSignature'], params_quick=[dict(VF_CASE=3, VF_AI=a, VF_AO=b, VF_BI=c, VF_BO=d) for (a, b, c, d) in ((1, 1, 1, 1), (2, 1, 1, 2), (1, 0, 0, 1), (2, 2, 2, 2), (0, 2, 1, 1))],
         params_thorough=[dict(VF_CASE=3, VF_AI=a, VF_AO=b, VF_BI=c, VF_BO=d) for a in range(3) for b in range(3) for c in range(3) for d in range(3) if (a, b) <= (c, d)], unwind=8, unwind_loops=[('intern', 20)], timeout=900),
    # the shell command's own attributes (args, env, deps settings, flags, explicit signature) on top of the ExternalCommand part
    dict(EXT, name='S3.shell-signature', harness='bs/h_shellsig.cpp', entry='harness_shellsig', tus=EXT['tus'] + ['lib/BuildSystem/ShellCommand.cpp'],
         stubs=HASH_STUBS, stub_virtual=EXT['stub_virtual'] + ['ShellCommand(?!12getSignature)'],
         noinline=['ShellCommand12getSignature'], expect_functions=['ShellCommand12getSignature', 'ExternalCommand12getSignature'],
         params_quick=[dict(VF_NA=0, VF_NE=0, VF_NP=0), dict(VF_NA=1, VF_NE=0, VF_NP=0)],
         params_thorough=[dict(VF_NA=a, VF_NE=0, VF_NP=0) for a in range(3)],
         unwind=8, unwind_loops=[('intern', 50)], timeout=600),
]
DISABLED = [
    # no verdict in 900 s each (std::string / SmallVector construction of the environment, the dependency-file paths and the explicit signature)
    dict(OBLIGATIONS[1], name='S3x.shell-signature-lists', params_quick=[dict(VF_NA=1, VF_NE=1, VF_NP=1), dict(VF_NA=1, VF_NE=0, VF_NP=0, VF_SIGDATA=1)]),
]
