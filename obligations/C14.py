PROPERTY = dict(
    level_text='Bounded model checking of the real stale-file-removal kernels: for every path/root/list within the stated sizes the prefix predicate agrees with a whole-component reference, and the removal loop removes exactly prior-minus-current inside the roots. Every input inside the bound is covered by the solver; nothing outside it is claimed.',
    level_note='Trusted: clang-14 front end and opt -O1, ir2c translation (differentially validated against the native IR build on every run), CBMC + SAT solver, C models of operator new/delete and std::string growth. FileSystem::remove is a recording stub; recursion into directories is the file system\'s contract.',
    level='model_checking',
    bounds='paths <= 4 (thorough 6) bytes, roots <= 3 (5) bytes over {/,a,b}; lists <= 2 entries',
    outside='longer paths; alphabets beyond {/,a,b}; empty roots (undocumented); real file-system removal (FileSystem::remove is a recording stub)',
    stubs='FileSystem::remove (recording), delegate callbacks (empty)',
    assumptions=['clang-14 -O1 IR of the current source is what is verified', 'ir2c translation (validated differentially each run)', 'CBMC 6.11 + SAT back end',
                 'C models of operator new/delete and std::string out-of-line members'],
)
def grid(lp, lr):
    return [{'VF_LP': a, 'VF_LR': b} for a in range(1, lp + 1) for b in range(1, lr + 1)]
OBLIGATIONS = [
    dict(name='L1.prefix', harness='C14/h_prefix.cpp', entry='harness_prefix',
         tus=['lib/BuildSystem/BuildSystem.cpp', 'lib/Basic/PlatformUtility.cpp'],
         noinline=['pathIsPrefixedByPath'], expect_functions=['pathIsPrefixedByPath'],
         models=['string'], unwind=8, params_quick=grid(4, 4), params_thorough=grid(6, 5), timeout=600),
]
