from _bs_common import EXT, HASH_STUBS, NOSIG
EXT = dict(EXT, stub_virtual=EXT['stub_virtual'] + NOSIG)
PROPERTY = dict(
    level='other',
    level_text='Reduced scope. End-to-end histories over a real file system and real commands cannot be encoded; what is decided, by bounded model checking of the real ExternalCommand code with the file system an arbitrary stub, is that the validity predicate and the output mapping are sound: (V2) a stored command result is accepted exactly when the command is not always-out-of-date, it was successful, and EVERY non-virtual output (all positions) still has the recorded file information (existence only for mutated outputs) - so a tampered, deleted or newly appeared output at any position invalidates it; (V3) each output node receives the information recorded at its own index, a missing one is reported missing, virtual ones carry none.  Together with C01 (engine) and C09 (signatures) these give the property for file systems that behave as stat documents; that composition is an argument, not a run.',
    level_note='Trusted: clang-14 -O1 IR of ExternalCommand.cpp, ir2c (validated each run), CBMC+SAT, FileInfo equality as proved in C13. Not decided: FileInputNodeTask/ProducedNodeTask glue in BuildSystem.cpp, build-description loading, mkdir/symlink tools, parallel execution.',
    bounds='V4 (BuildNode::getSignature over the ideal hash of C09): plain nodes with 0..2 producers, names 0..2 bytes over {a,b}; commands with 1..3 outputs, every combination of virtual/mutated flags, all FileInfo fields of stored and current state symbolic, all stored value kinds',
    outside='more than 3 outputs; more than 2 producers of a node; node tasks and rule lookup in BuildSystem.cpp; the YAML loader; real file systems',
    stubs='BuildSystem::getFileSystem -> arbitrary FileSystem',
    assumptions=[],
    explanation='The deciding step is the solver verdict on ExternalCommand::isResultValid and getResultForOutput for all states within the bound; the end-to-end sentence of the property additionally rests on C01, C09, C13 and on the stat contract of the operating system, which are stated, not checked here.',
)
OBLIGATIONS = [
    dict(EXT, name='V2.isResultValid', noinline=['ExternalCommand13isResultValid'], expect_functions=['ExternalCommand13isResultValid'], params_quick=[{'VF_CASE': 0, 'VF_K': k} for k in (1, 2)],
         params_thorough=[{'VF_CASE': 0, 'VF_K': k} for k in (1, 2, 3)]),
    dict(EXT, name='V3.resultForOutput', noinline=['ExternalCommand18getResultForOutput'], expect_functions=['ExternalCommand18getResultForOutput'], params_quick=[{'VF_CASE': 1, 'VF_K': k} for k in (1, 2)],
         params_thorough=[{'VF_CASE': 1, 'VF_K': k} for k in (1, 2, 3)]),
    # the signature of a produced node's rule (BuildNode::getSignature, over the ideal hash of C09): a description edit that rewires a node to other producers is seen
    dict(EXT, name='V4.node-signature', stubs=EXT['stubs'] + HASH_STUBS, noinline=['BuildNode12getSignature'], expect_functions=['BuildNode12getSignature'],
         params_quick=[dict(VF_CASE=6, VF_AI=a, VF_BI=b) for (a, b) in ((1, 1), (0, 1), (1, 2))], params_thorough=[dict(VF_CASE=6, VF_AI=a, VF_BI=b) for a in range(3) for b in range(a, 3)],
         unwind=8, unwind_loops=[('intern', 20)], timeout=400),
]
