PROPERTY = dict(
    level='model_checking',
    level_text='Bounded model checking of every forwarder and adaptor in the core C API (Core-C-API.cpp) against recording stubs of the C++ engine interface: for every key/value of the stated length (arbitrary bytes incl. NUL), every input id and flag, the C++ side receives exactly what the C client passed, exactly once, and every engine callback reaches the C delegate with its arguments unchanged. "Same events as the C++ interface" is thereby reduced to the identity on what the engine sees; it is not established by running two engines.',
    level_note='Trusted: clang-14 -O1 IR, ir2c (validated each run), CBMC+SAT, real libstdc++ std::string/vector code in the module. BuildEngine, TaskInterface members and createSQLiteBuildDB are recording stubs (the engine itself is C01-C06). BuildDB-C-API.cpp and the BuildSystem C API are not covered.',
    bounds='keys, values and paths of 0..3 bytes (thorough 0..5), all contents; arbitrary input ids, schema versions, flags',
    outside='longer keys; llb_buildengine_create/destroy lifetimes; BuildDB-C-API.cpp; BuildSystem-C-API.cpp; the Swift bindings',
    stubs='TaskInterface::{request,mustFollow,discoveredDependency,complete,delegate}, BuildEngine::{build,attachDB}, createSQLiteBuildDB -> recorders',
    assumptions=[],
)
STUBS = ['TaskInterface7requestERKNS0_7KeyTypeEm$=vf_request', 'TaskInterface10mustFollowERKNS0_7KeyTypeE$=vf_mustFollow',
         'TaskInterface20discoveredDependencyERKNS0_7KeyTypeE$=vf_discovered', 'TaskInterface8completeEOSt6vectorIhSaIhEEb$=vf_complete',
         'TaskInterface8delegateEv$=vf_tiDelegate', 'BuildEngine5buildERKNS0_7KeyTypeE$=vf_build', 'BuildEngine8attachDB=vf_attachDB', 'core19createSQLiteBuildDB=vf_createDB']
def cases(cs, lo, hi):
    return [{'VF_CASE': c, 'VF_N': n} for c in cs for n in range(lo, hi + 1)]
COMMON = dict(allow_external=['^_ZTVN7llbuild4core19BuildEngineDelegateE$', '^_ZTVN7llbuild5basic22ExecutionQueueDelegateE$', '^_ZTVN7llbuild4core4RuleE$', '^_ZTVN7llbuild4core4TaskE$'],  # base-class vtables: stored by the inlined base constructors and overwritten at once
              stub_virtual=['^_ZN7llbuild4core19BuildEngineDelegate', '^_ZN7llbuild5basic22ExecutionQueueDelegate', 'CAPIBuildEngineDelegate5errorERKN4llvm5TwineE', 'CAPIBuildEngineDelegate20createExecutionQueue', '^_ZN7llbuild4core4(Rule|Task)'], harness='C20/h_capi.cpp', entry='harness_capi', cxxflags=['-I/repo/products/libllbuild/include'], stubs=STUBS, unwind=8, unwind_thorough=10,
              unwindset='strlen.0:16')   # a C-string read of a length-delimited buffer runs off its end (pointer check) long before this bound
OBLIGATIONS = [
    dict(COMMON, name='A1.task-requests', expect_functions=['^llb_buildengine_task_'],
         noinline=['^llb_buildengine_task_'], params_quick=cases([0, 1, 2], 0, 3), params_thorough=cases([0, 1, 2], 0, 5)),
    dict(COMMON, name='A2.task-complete', expect_functions=['llb_buildengine_task_is_complete'], noinline=['^llb_buildengine_task_'],
         params_quick=cases([3], 0, 3), params_thorough=cases([3], 0, 5)),
    dict(COMMON, name='A3.build-attach', expect_functions=['^llb_buildengine_(build|attach_db)'], noinline=['^llb_buildengine_(build|attach_db)'],
         params_quick=cases([4, 5], 0, 3), params_thorough=cases([4, 5], 0, 5)),
    dict(COMMON, name='A4.adaptors', expect_functions=['CAPITask|CAPIRule'],
         noinline=['CAPITask', 'CAPIRule', 'CAPIBuildEngineDelegate(10lookupRule|13cycleDetected)'], params_quick=cases([6, 7], 0, 3), params_thorough=cases([6, 7], 0, 5)),
]
