PROPERTY = dict(
    level='model_checking',
    level_text='Bounded model checking of the three hand-written parsers on the real code: for EVERY byte string up to the stated length, held in an exact-size heap object without terminator, one lexing/parsing step (or a whole parse) reads nothing outside the buffer, terminates within the unwinding bound, keeps its cursor inside the buffer, reports end-of-file only at the true end and tiles the input. Inside the bound the solver covers all 256^n contents; nothing is claimed for longer inputs except through the one-step-from-arbitrary-cursor induction argument (DESIGN.md C19).',
    level_note='Trusted: clang-14 -O1 IR of the current source, ir2c (differentially validated every run), CBMC pointer/bounds checks as the over-read oracle and unwinding assertions as the termination oracle, models of operator new and isspace. Not decided: the YAML build-description loader (BuildFile.cpp over the LLVM YAML parser), the Ninja Parser/ManifestLoader as a whole.',
    bounds='buffers of 0..4 bytes (thorough 0..6), all contents; cursor offset, column and lexing mode arbitrary',
    outside='inputs longer than the bound (covered only by the one-step induction: a lexer step from any cursor state is safe); YAML loader; Parser.cpp / ManifestLoader.cpp',
    stubs='parse-action callbacks record and check their arguments',
    assumptions=['Lexer invariant assumed for the pre-state: column == 0 exactly at the start of a line',
                 'allocation failure out of scope (--no-malloc-may-fail)'],
)
def lens(lo, hi, key='VF_N', extra=None):
    out = []
    for n in range(lo, hi + 1):
        d = {key: n}
        if extra: d.update(extra)
        out.append(d)
    return out
OBLIGATIONS = [
    dict(name='H1.lexer-step', harness='C19/h_lexer.cpp', entry='harness_lexer', tus=['lib/Ninja/Lexer.cpp'],
         noinline=[r'Lexer3lexE'], expect_functions=[r'Lexer3lexE'], unwind=10, unwind_is_oracle=True,
         params_quick=lens(0, 4), params_thorough=lens(0, 6), unwind_thorough=14, timeout=900),
    dict(name='H2.lexWord', harness='C19/h_mkunits.cpp', entry='harness_mkunit', native_tus=['lib/llvm/Support/SmallVector.cpp'], noinline=['lexWord'], expect_functions=['lexWord'],
         unwind=8, unwind_is_oracle=True, params_quick=lens(0, 4, extra={'VF_UNIT': 0}), params_thorough=lens(0, 6, extra={'VF_UNIT': 0}), unwind_thorough=10),
    dict(name='H2.skipWsComments', harness='C19/h_mkunits.cpp', entry='harness_mkunit', noinline=['skipWhitespaceAndComments'], expect_functions=['skipWhitespaceAndComments'],
         unwind=8, unwind_is_oracle=True, params_quick=lens(0, 4, extra={'VF_UNIT': 1}), params_thorough=lens(0, 6, extra={'VF_UNIT': 1}), unwind_thorough=10),
    dict(name='H2.skipNonNewlineWs', harness='C19/h_mkunits.cpp', entry='harness_mkunit', noinline=['skipNonNewlineWhitespace'], expect_functions=['skipNonNewlineWhitespace'],
         unwind=8, unwind_is_oracle=True, params_quick=lens(0, 4, extra={'VF_UNIT': 2}), params_thorough=lens(0, 6, extra={'VF_UNIT': 2}), unwind_thorough=10),
    dict(name='H2.skipToEol', harness='C19/h_mkunits.cpp', entry='harness_mkunit', noinline=['skipToEndOfLine'], expect_functions=['skipToEndOfLine'],
         unwind=8, unwind_is_oracle=True, params_quick=lens(0, 4, extra={'VF_UNIT': 3}), params_thorough=lens(0, 6, extra={'VF_UNIT': 3}), unwind_thorough=10),
    dict(name='H2b.mkparse', harness='C19/h_mkparse.cpp', entry='harness_mkparse', native_tus=['lib/llvm/Support/SmallVector.cpp'], noinline=[r'MakefileDepsParser5parseEv'], expect_functions=[r'MakefileDepsParser5parseEv'],
         unwind='VF_N+2', unwind_is_oracle=True, params_quick=lens(0, 0), params_thorough=lens(0, 1), timeout=300, timeout_thorough=1800, field_sens=16),
    dict(name='H3.depinfo', harness='C19/h_depinfo.cpp', entry='harness_depinfo', noinline=[r'DependencyInfoParser5parseEv'], expect_functions=[r'DependencyInfoParser5parseEv'],
         tus=['lib/llvm/Support/StringRef.cpp'],
         unwind=8, unwind_is_oracle=True, params_quick=lens(0, 4), params_thorough=lens(0, 6), unwind_thorough=10, timeout=300, timeout_thorough=1500),
]
