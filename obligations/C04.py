from _engine_common import ENG
import C03 as _C03
PROPERTY = dict(
    level='other',
    level_text='Reduced scope. The crash points of this property lie inside SQLite (pager, journal), behind FFI, and cannot be encoded; what IS decided, by bounded model checking of the real BuildEngineImpl::build with a recording database, is the transaction discipline on the engine side and (T3) on the database side - setRuleResult neither commits nor reopens the build transaction, every one of its writes lies inside it, and key rows are written before the result row that refers to them (rule key and every dependency) - that makes a kill leave either the pre-build or the post-build snapshot: the database transaction is opened before any task runs; every result write of the build lies between that and the commit; the current epoch is written after all results of the build on EVERY path after the tasks ran (also when the build failed or was cancelled), so no committed result can carry an epoch above the stored one; the commit is the last database call on every path.  That SQLite commits a transaction atomically with respect to process death is an axiom here, not a result.  The database-side half (T3: setRuleResult neither commits nor reopens the transaction; key rows precede the rows that refer to them) is decided over the SQLite row model (harness/C03, case 0) for ONE result write from a freshly opened database object; a change that commits only after many writes in one build (seeds C04a/C04b: every 128th / 1024th result) is outside that bound and is not detected.',
    level_note='Trusted: as C01; axiom: SQLite transaction atomicity. Results written by executeTasks are stamped with the current epoch (C01-O6/O7), assumed in the executeTasks stub of this harness.',
    bounds='0..2 result writes per build; arbitrary starting epoch; database present or absent; every combination of start failure, cancellation, task failure and epoch-write failure',
    outside='SQLite journal and locking semantics; a kill between two SQLite system calls; SQLiteBuildDB::setRuleResult internals; continued builds after a crash',
    stubs='BuildDB = recording stub; executeTasks = contract stub performing 0..2 result writes',
    assumptions=['SQLite commits or rolls back a transaction atomically with respect to process death'],
    explanation='A solver verdict on the order and presence of the database calls build() makes, for every combination of failures; the crash quantifier itself is discharged by the stated SQLite axiom, not by this check.',
)
OBLIGATIONS = [
    dict(ENG, name='T12.build-transaction', harness='engine/h_build.cpp', entry='harness_build', noinline=['BuildEngineImpl5buildERKN7llbuild4core7KeyTypeE'], expect_functions=['BuildEngineImpl5buildERKN7llbuild4core7KeyTypeE'],
         stubs=['BuildEngineImpl12executeTasksERKN7llbuild4core7KeyTypeE$=stub_executeTasks', 'BuildEngineImpl17getRuleInfoForKeyERKN7llbuild4core7KeyTypeE$=stub_getRuleInfoForKeyType'],
         unwind=5, params_quick=[{}], timeout=600),
    # the database side of the same discipline (harness of C03-R1: its transaction and referential-integrity monitors)
    dict(_C03.COMMON, name='T3.write-discipline', params_quick=[p for p in _C03.rt('quick') if p['VF_ND'] == 2][:3], params_thorough=[p for p in _C03.rt('thorough') if p['VF_ND'] == 2 and p['VF_NV'] == 1]),
    # the same step from ANY state of the database object's own integer members (counters / mode flags): a commit every n-th write is a one-step violation at n-1
    dict(_C03.COMMON, name='T3b.write-step-any-state', params_quick=[dict(p, VF_HAVOC=1) for p in _C03.rt('quick') if p['VF_ND'] == 2 and 'VF_SAMEDEP' not in p][:2],
         params_thorough=[dict(p, VF_HAVOC=1) for p in _C03.rt('thorough') if p['VF_ND'] == 2 and p['VF_NV'] == 1 and p['VF_FL'] in (0, 6, 9, 15) and 'VF_SAMEDEP' not in p]),
    dict(ENG, name='T12.attachDB', harness='engine/h_build.cpp', entry='harness_attach', noinline=['BuildEngineImpl8attachDB'], expect_functions=['BuildEngineImpl8attachDB'], unwind=5, params_quick=[{}]),
]
