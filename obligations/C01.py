PROPERTY = dict(
    level='model_checking',
    level_text='Inductive-step model checking of the real BuildEngine functions: each engine function (scanRule, processRuleScanRequest, demandRule, taskIsComplete, one executeTasks pass, build) is executed symbolically from an ARBITRARY engine state (arbitrary epochs, signatures, dependency lists with arbitrary flags, values) constrained only by the stated representation invariant, and its contract O1-O9 (DESIGN.md C01) is asserted. Call histories are not unrolled: histories of any length are covered to the extent that the contracts compose to the property (composition argument in DESIGN.md; it is an argument, not a machine-checked proof).',
    level_note='Trusted: clang-14 -O1 IR of BuildEngine.cpp, ir2c (validated each run), CBMC+SAT, real libstdc++ container code with the rehash policy modelled as never rehashing, pthread mutexes as no-ops in sequential harnesses, rules/tasks/delegate as recording stubs with arbitrary answers. Callees of the function under test are replaced by contract stubs where stated (IR-level redirection, listed in the evidence).',
    bounds='recorded dependencies <= 2 (thorough 3); tasks <= 2; values 1 byte; epochs, signatures, flags full width',
    outside='longer dependency lists and queues; whole multi-build runs (covered only through the induction); tracing enabled; SQLite (C03)',
    stubs='Rule::{createTask,isResultValid,updateStatus}, BuildEngineDelegate callbacks, Task callbacks; per obligation: scanRule/demandRule/getRuleInfoForKey contract stubs',
    assumptions=['Inv(i): computedAt <= builtAt <= currentEpoch for every stored result'],
)
from _engine_common import ENG, EXEC_STUBS
OBLIGATIONS = [
    dict(ENG, name='O1.scanRule', harness='engine/h_scan.cpp', entry='harness_scanRule', noinline=['BuildEngineImpl8scanRule'], expect_functions=['BuildEngineImpl8scanRule'],
         unwind=6, params_quick=[{'VF_NDEPS': n} for n in (0, 1, 2)], params_thorough=[{'VF_NDEPS': n} for n in (0, 1, 2, 3)]),
    dict(ENG, name='O2.scanRequest', harness='engine/h_prsr.cpp', entry='harness_prsr', noinline=['BuildEngineImpl22processRuleScanRequest', 'BuildEngineImpl17finishScanRequest'],
         stubs=['BuildEngineImpl8scanRuleERNS0_8RuleInfoE$=stub_scanRule', 'BuildEngineImpl10demandRuleERNS0_8RuleInfoE$=stub_demandRule', 'BuildEngineImpl17getRuleInfoForKeyEN7llbuild4core5KeyIDE$=stub_getRuleInfoForKey'],
         expect_functions=['BuildEngineImpl22processRuleScanRequest'], unwind=6, params_quick=[{'VF_NDEPS': n} for n in (1, 2)], params_thorough=[{'VF_NDEPS': n} for n in (1, 2, 3)]),
    dict(ENG, name='O2.resume', harness='engine/h_resume.cpp', entry='harness_resume', noinline=['BuildEngineImpl22processRuleScanRequest', 'BuildEngineImpl17finishScanRequest'],
         stubs=['BuildEngineImpl8scanRuleERNS0_8RuleInfoE$=stub_scanRule', 'BuildEngineImpl10demandRuleERNS0_8RuleInfoE$=stub_demandRule', 'BuildEngineImpl17getRuleInfoForKeyEN7llbuild4core5KeyIDE$=stub_getRuleInfoForKey'],
         expect_functions=['BuildEngineImpl22processRuleScanRequest'], unwind=6, params_quick=[{}]),
    dict(ENG, name='O3.demandRule', harness='engine/h_demand.cpp', entry='harness_demand', noinline=['BuildEngineImpl10demandRule'], expect_functions=['BuildEngineImpl10demandRule'], unwind=6, params_quick=[{}]),
    dict(ENG, name='O7.taskIsComplete', harness='engine/h_complete.cpp', entry='harness_complete', noinline=['BuildEngineImpl14taskIsComplete'], expect_functions=['BuildEngineImpl14taskIsComplete'], unwind=6, params_quick=[{}]),
    dict(ENG, name='O456.executeTasks-pass', harness='engine/h_exec.cpp', entry='harness_exec',
         noinline=['BuildEngineImpl12executeTasks', 'BuildEngineImpl14taskIsComplete'], expect_functions=['BuildEngineImpl12executeTasks', 'BuildEngineImpl14taskIsComplete'],
         stubs=EXEC_STUBS, unwind=4, params_quick=[{'VF_INJECT_AT': -1}, {'VF_INJECT_AT': -1, 'VF_READY_ONLY': 1}], timeout=600),
    dict(ENG, name='O6.finished-pass', harness='engine/h_finish.cpp', entry='harness_finish',
         noinline=['BuildEngineImpl12executeTasks', 'BuildEngineImpl14taskIsComplete'], expect_functions=['BuildEngineImpl12executeTasks'],
         stubs=EXEC_STUBS + ['BuildEngineImpl22processRuleScanRequestENS0_15RuleScanRequestE$=stub_processRuleScanRequest'], unwind=4, params_quick=[{'VF_PART': 0}, {'VF_PART': 2}], timeout=900, cbmc_flags=['--object-bits', '10']),
]
