from _engine_common import ENG
PROPERTY = dict(
    claim=False, na_reason='work in progress',
    level='other', level_text='findCycle per graph shape', level_note='', bounds='', outside='', stubs='', assumptions=[], explanation='',
)
def shapes(n, sample=None):
    out = [{'VF_N': n, 'VF_SHAPE': s} for s in range(1 << (n * n))]
    return out if sample is None else [out[i] for i in sample]
CYC = dict(ENG, harness='engine/h_cycle.cpp', entry='harness_cycle', noinline=['BuildEngineImpl9findCycle'], expect_functions=['BuildEngineImpl9findCycle'],
           stubs=['BuildEngineImpl17getRuleInfoForKeyERKN7llbuild4core7KeyTypeE$=stub_getRuleInfoForKeyType',
                  '^_ZNKSt4hashIPN7llbuild4core4TaskEEclES3_$=stub_hash_task', '^_ZNKSt4hashIPN7llbuild4core4RuleEEclES3_$=stub_hash_rule'],
           unwind=8, unwindset='IR_CTLZ64.0:66', timeout=600, cbmc_flags=['--object-bits', '11'])
def stuck(ps):
    # resolveCycle is only entered when the engine is stuck: every task waits on something (each row of the shape has an edge)
    out = []
    for p in ps:
        n, s = p['VF_N'], p['VF_SHAPE']
        if all((s >> (i * n)) & ((1 << n) - 1) for i in range(n)): out.append(dict(p, VF_RESOLVE=1))
    return out
OBLIGATIONS = [
    dict(CYC, name='Y1.findCycle', params_quick=shapes(2) + shapes(3, sample=[0, 1, 2, 17, 34, 68, 84, 98, 140, 273, 292, 341, 427, 495, 511]), params_thorough=shapes(2) + shapes(3)),
    dict(CYC, name='Y2.resolveCycle', noinline=['BuildEngineImpl9findCycle', 'BuildEngineImpl12resolveCycle', 'BuildEngineImpl10breakCycle'], expect_functions=['BuildEngineImpl12resolveCycle'],
         params_quick=stuck(shapes(2) + shapes(3, sample=[84, 98, 140, 273, 292, 341, 427, 495, 511])), params_thorough=stuck(shapes(2) + shapes(3))),
]
