from _engine_common import ENG
PROPERTY = dict(
    jobs=8, jobs_thorough=8,   # two solver processes per query (eager portfolio)
    level='other',
    level_text='Reduced scope, bounded: the cycle finder of the real engine (BuildEngineImpl::findCycle, and resolveCycle / breakCycle around it) is decided by CBMC for every wait-for graph over 2 and 3 rules, '
               'one query per graph shape, with the rule keys - which fix the order in which predecessors are explored, hence WHICH cycle is reported - symbolic. '
               '(Y1) if a cycle is reachable from the requested key the reported list starts at the requested key, every consecutive pair is a real wait-for edge, the last key repeats an earlier one and no key is listed twice before it; if none is reachable the list is empty (no false report). '
               '(Y3) the same with some rules still being SCANNED instead of running (cycles through dependencies recorded by earlier builds): a task waiting for a scanning rule is a paused input request in that rule\'s scan record, a scanning rule waiting for another rule is a deferred scan request in the other\'s record or task. '
               '(Y2) when the engine is stuck and the cycle cannot be broken, the client is told exactly once, with that list, the build does not go on, and no task is changed; (Y4) the same when any rule may carry a result of an earlier build (breakCycle then considers supplying prior values; the client declines).',
    level_note='Trusted: clang-14 -O1 IR of BuildEngine.cpp, ir2c (validated per query), CBMC 6.11 + MiniSat/CaDiCaL; the real libstdc++ hash containers run unmodified, only std::hash of a pointer is replaced by an injective small number (any function of the pointer is a valid hash). '
               'NOT decided: that the engine enters resolveCycle exactly when it is stuck (C05/C06 drive executeTasks with resolveCycle stubbed), '
               'cycle breaking by forcing a build or supplying a prior value, graphs over more than 3 rules.',
    bounds='2 and 3 rules, every edge set including self-edges (16 + 128 of the 512 three-rule shapes thorough; 16 + 13 quick, among them the diamonds that separate visited-set bugs); with scanning rules every subset of rules scanning and every edge set in which a scanning rule is parked on at most one input (2 rules: all 33 shapes; 3 rules: every 16th of 1216 thorough; 18 quick); 1-byte keys, pairwise distinct, symbolic',
    outside='> 3 rules; delegate-driven cycle breaking; the executeTasks loop around resolveCycle',
    stubs='getRuleInfoForKey(requested key) -> rule 0; std::hash<Task*>, std::hash<Rule*>, std::hash<const RuleScanRecord*> -> index of the object; tracing off',
    assumptions=['the requested key is rule 0 (any other choice is a relabelling of another shape)'],
    explanation='For each shape the solver decides, over all key orders, that what findCycle returns (and what the client is shown) is a genuine cycle reachable from the requested key, or nothing when there is none.',
)
def shapes(n, sample=None):
    out = [{'VF_N': n, 'VF_SHAPE': s} for s in range(1 << (n * n))]
    return out if sample is None else [out[i] for i in sample]
CYC = dict(ENG, harness='engine/h_cycle.cpp', entry='harness_cycle', noinline=['BuildEngineImpl9findCycle'], expect_functions=['BuildEngineImpl9findCycle'],
           stubs=['BuildEngineImpl17getRuleInfoForKeyERKN7llbuild4core7KeyTypeE$=stub_getRuleInfoForKeyType',
                  '^_ZNKSt4hashIPN7llbuild4core4TaskEEclES3_$=stub_hash_task', '^_ZNKSt4hashIPN7llbuild4core4RuleEEclES3_$=stub_hash_rule', '^_ZNKSt4hashIPKN12_GLOBAL__N_115BuildEngineImpl14RuleScanRecordEEclES4_$=stub_hash_record'],
           unwind=8, unwindset='IR_CTLZ64.0:66', timeout=600, portfolio='eager',   # both SAT back ends from the start, first verdict wins: MiniSat needs 100-500 s on some of these instances and CaDiCaL 5-15 s - and the other way round on others (N2 shape 11: CaDiCaL 541 s)
           cbmc_flags=['--object-bits', '11'])
def stuck(ps):
    # resolveCycle is only entered when the engine is stuck: every task waits on something (each row of the shape has an edge)
    out = []
    for p in ps:
        n, s = p['VF_N'], p['VF_SHAPE']
        if all((s >> (i * n)) & ((1 << n) - 1) for i in range(n)): out.append(dict(p, VF_RESOLVE=1))
    return out
def scan_shapes(n, sample=None):
    # some rules are still being scanned (VF_SCAN mask != 0); a scanning rule is parked on at most one input
    out = []
    for mask in range(1, 1 << n):
        for s in range(1 << (n * n)):
            if all(bin((s >> (i * n)) & ((1 << n) - 1)).count('1') <= 1 for i in range(n) if (mask >> i) & 1): out.append({'VF_N': n, 'VF_SHAPE': s, 'VF_SCAN': mask})
    return out if sample is None else [out[i % len(out)] for i in sample]
OBLIGATIONS = [
    dict(CYC, name='Y1.findCycle', params_quick=shapes(2) + shapes(3, sample=[0, 2, 17, 34, 38, 68, 84, 98, 134, 140, 273, 292, 341]),   # (the complete graphs 427/495/511 cost 2-6 min each: thorough only)
         params_thorough=shapes(2) + shapes(3)[::4]),   # every 4th of the 512 three-rule shapes (the full set costs about 2.5 h with 8 jobs)
    dict(CYC, name='Y3.findCycle-scanning', params_quick=[{'VF_N': 2, 'VF_SHAPE': sh, 'VF_SCAN': m} for (sh, m) in ((6, 1), (6, 2), (6, 3), (2, 3), (10, 2))] +
                      [{'VF_N': 3, 'VF_SHAPE': sh, 'VF_SCAN': m} for (sh, m) in ((10, 1), (10, 2), (10, 3), (162, 6), (102, 4), (98, 7), (98, 2), (38, 2), (260, 5), (2, 1), (2, 3), (140, 1), (273, 2))], params_thorough=scan_shapes(2) + scan_shapes(3)[::16]),   # every 16th of the 1216 three-rule shapes: a shape in which a rule waits on two others costs 1-8 min (symbolic exploration order)
    dict(CYC, name='Y2.resolveCycle', noinline=['BuildEngineImpl9findCycle', 'BuildEngineImpl12resolveCycle', 'BuildEngineImpl10breakCycle'], expect_functions=['BuildEngineImpl12resolveCycle'],
         params_quick=stuck(shapes(2) + shapes(3, sample=[84, 98, 140, 273, 292, 341])), params_thorough=stuck(shapes(2)) + stuck(shapes(3))[::6]),
    # Y4: as Y2, but every rule may have a result of an earlier build: breakCycle then considers supplying prior values (the client declines)
    dict(CYC, name='Y4.resolveCycle-prior', noinline=['BuildEngineImpl9findCycle', 'BuildEngineImpl12resolveCycle', 'BuildEngineImpl10breakCycle'], expect_functions=['BuildEngineImpl10breakCycle'],
         params_quick=[dict(p, VF_PRIOR=1) for p in stuck(shapes(2, sample=[6, 10, 14]) + shapes(3, sample=[98, 162, 273]))], params_thorough=[dict(p, VF_PRIOR=1) for p in stuck(shapes(2)) + stuck(shapes(3))[::12]]),
]
