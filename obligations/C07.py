from _engine_common import ENG
PROPERTY = dict(
    level='other',
    level_text='Reduced scope, bounded: the cycle finder of the real engine (BuildEngineImpl::findCycle, and resolveCycle / breakCycle around it) is decided by CBMC for every wait-for graph over 2 and 3 rules, '
               'one query per graph shape, with the rule keys - which fix the order in which predecessors are explored, hence WHICH cycle is reported - symbolic. '
               '(Y1) if a cycle is reachable from the requested key the reported list starts at the requested key, every consecutive pair is a real wait-for edge, the last key repeats an earlier one and no key is listed twice before it; if none is reachable the list is empty (no false report). '
               '(Y2) when the engine is stuck and the cycle cannot be broken, the client is told exactly once, with that list, the build does not go on, and no task is changed.',
    level_note='Trusted: clang-14 -O1 IR of BuildEngine.cpp, ir2c (validated per query), CBMC 6.11 + MiniSat/CaDiCaL; the real libstdc++ hash containers run unmodified, only std::hash of a pointer is replaced by an injective small number (any function of the pointer is a valid hash). '
               'NOT decided: that the engine enters resolveCycle exactly when it is stuck (C05/C06 drive executeTasks with resolveCycle stubbed), cycles that run through rules still being SCANNED (paused input requests and deferred scan requests of RuleScanRecords are not constructed: all rules of a query have tasks), '
               'cycle breaking by forcing a build or supplying a prior value, graphs over more than 3 rules.',
    bounds='2 and 3 rules, every edge set including self-edges (16 + 512 shapes thorough; 16 + 17 quick, among them the diamonds that separate visited-set bugs); 1-byte keys, pairwise distinct, symbolic',
    outside='scan-record edges; > 3 rules; delegate-driven cycle breaking; the executeTasks loop around resolveCycle',
    stubs='getRuleInfoForKey(requested key) -> rule 0; std::hash<Task*>, std::hash<Rule*> -> index of the object; tracing off',
    assumptions=['the requested key is rule 0 (any other choice is a relabelling of another shape)'],
    explanation='For each shape the solver decides, over all key orders, that what findCycle returns (and what the client is shown) is a genuine cycle reachable from the requested key, or nothing when there is none.',
)
def shapes(n, sample=None):
    out = [{'VF_N': n, 'VF_SHAPE': s} for s in range(1 << (n * n))]
    return out if sample is None else [out[i] for i in sample]
CYC = dict(ENG, harness='engine/h_cycle.cpp', entry='harness_cycle', noinline=['BuildEngineImpl9findCycle'], expect_functions=['BuildEngineImpl9findCycle'],
           stubs=['BuildEngineImpl17getRuleInfoForKeyERKN7llbuild4core7KeyTypeE$=stub_getRuleInfoForKeyType',
                  '^_ZNKSt4hashIPN7llbuild4core4TaskEEclES3_$=stub_hash_task', '^_ZNKSt4hashIPN7llbuild4core4RuleEEclES3_$=stub_hash_rule'],
           unwind=8, unwindset='IR_CTLZ64.0:66', timeout=600, cbmc_flags=['--object-bits', '11'])
def stuck(ps):
    # resolveCycle is only entered when the engine is stuck: every task waits on something (each row of the shape has an edge)
    out = []
    for p in ps:
        n, s = p['VF_N'], p['VF_SHAPE']
        if all((s >> (i * n)) & ((1 << n) - 1) for i in range(n)): out.append(dict(p, VF_RESOLVE=1))
    return out
OBLIGATIONS = [
    dict(CYC, name='Y1.findCycle', params_quick=shapes(2) + shapes(3, sample=[0, 1, 2, 17, 34, 38, 68, 84, 98, 134, 140, 273, 292, 341, 427, 495, 511]), params_thorough=shapes(2) + shapes(3)),
    dict(CYC, name='Y2.resolveCycle', noinline=['BuildEngineImpl9findCycle', 'BuildEngineImpl12resolveCycle', 'BuildEngineImpl10breakCycle'], expect_functions=['BuildEngineImpl12resolveCycle'],
         params_quick=stuck(shapes(2) + shapes(3, sample=[84, 98, 140, 273, 292, 341, 427, 495, 511])), params_thorough=stuck(shapes(2) + shapes(3))),
]
