from _engine_common import ENG, EXEC_STUBS
PROPERTY = dict(
    level='model_checking',
    level_text='Bounded model checking of the task protocol and the completion hand-shake on the real engine loop: (P1) per phase, for an arbitrary task, start/prior-value/provide-value/inputs-available are delivered exactly once and in order (demandRule and one executeTasks pass from symbolic states); (P2) the finished-task and finished-input passes treat each completed task independently of arrival order (two completed tasks, both arrival orders, one query each); (P3) lost wake-up: the completing thread (the real taskIsComplete) is injected before each acquisition of the finished-queue mutex, one query per injection point, and the engine must never block while a completion is queued. Data-race freedom of other shared fields and real multi-thread schedules are NOT decided.',
    level_note='Trusted: as C01, plus the sequentialisation argument for P3: both sides touch finishedTaskInfos only under finishedTaskInfosMutex, so interleavings matter only at lock boundaries (pthread_mutex_lock of that mutex is the interleaving point; condition_variable::wait is an environment stub that asserts the queue is empty and lets the still-computing task report).',
    bounds='tasks <= 2, requests <= 1 per task, injection points k = 0..6 (enumerated, one query each), values 1 byte, epochs/flags symbolic',
    outside='more than two concurrent tasks; data races on waitCount/inputRequests; real threads; discovery/cancellation calls racing with completion',
    stubs='scanRule/demandRule/getRuleInfoForKey/resolveCycle/cancelRemainingTasks contract stubs; pthread_mutex_lock = interleaving point; condition_variable::wait = environment',
    assumptions=['tasks already computing do report completion (premise of the property)'],
)
OBLIGATIONS = [
    dict(ENG, name='P1.demandRule-protocol', harness='engine/h_demand.cpp', entry='harness_demand', noinline=['BuildEngineImpl10demandRule'], stubs=['BuildEngineImpl17getRuleInfoForKeyERKN7llbuild4core7KeyTypeE$=stub_getRuleInfoForKeyType'], expect_functions=['BuildEngineImpl10demandRule'], unwind=6, params_quick=[{}]),
    dict(ENG, name='P1.pass-protocol', harness='engine/h_exec.cpp', entry='harness_exec', noinline=['BuildEngineImpl12executeTasks', 'BuildEngineImpl14taskIsComplete'],
         expect_functions=['BuildEngineImpl12executeTasks', 'BuildEngineImpl14taskIsComplete'], stubs=EXEC_STUBS, unwind=4, params_quick=[{'VF_INJECT_AT': -1}, {'VF_INJECT_AT': -1, 'VF_READY_ONLY': 1}], timeout=600),
    dict(ENG, name='P3.lost-wakeup', harness='engine/h_exec.cpp', entry='harness_exec', noinline=['BuildEngineImpl12executeTasks', 'BuildEngineImpl14taskIsComplete'],
         expect_functions=['BuildEngineImpl12executeTasks', 'BuildEngineImpl14taskIsComplete'], stubs=EXEC_STUBS, unwind=4, params_quick=[{'VF_INJECT_AT': k} for k in range(0, 7)], timeout=600),
    dict(ENG, name='P2.arrival-order', harness='engine/h_two.cpp', entry='harness_two', noinline=['BuildEngineImpl12executeTasks', 'BuildEngineImpl14taskIsComplete'],
         expect_functions=['BuildEngineImpl12executeTasks', 'BuildEngineImpl14taskIsComplete'], stubs=EXEC_STUBS, unwind=4, params_quick=[{'VF_ORDER': 0}, {'VF_ORDER': 1}], timeout=600, cbmc_flags=['--object-bits', '10']),
]
