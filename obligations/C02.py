from _engine_common import ENG, EXEC_STUBS
import importlib.util, os
_p = os.path.join(os.path.dirname(os.path.abspath(__file__)), 'C01.py')
_s = importlib.util.spec_from_file_location('obl_C01_for_C02', _p); _m = importlib.util.module_from_spec(_s); _s.loader.exec_module(_m)
PROPERTY = dict(
    level='model_checking',
    level_text='Inductive-step model checking of the engine functions that decide whether and why a rule runs: from an arbitrary state, scanRule/processRuleScanRequest report a reason exactly when they move a rule to NeedsToRun, and the reason and input they report are true of that state (NeverBuilt iff builtAt = 0; SignatureChanged iff the signatures differ; InvalidValue iff the validity predicate said so; InputRebuilt names the first recorded non-order-only dependency whose computedAt exceeds builtAt, also for a scan that was parked and resumed); an order-only or unchanged (computedAt <= builtAt) dependency never triggers; demandRule creates at most one task per rule and build (the only edge into InProgressWaiting is from NeedsToRun; in-progress and complete rules are left alone); taskIsComplete leaves computedAt untouched for an identical value.  "At most once per build" and "a null build executes nothing" follow by the C01 induction from these contracts, they are not established by running builds.',
    level_note='Trusted: as C01. The "previous execution was interrupted" clause is covered by C05 (a cancelled rule is never Complete, and has builtAt untouched).',
    bounds='as C01: recorded dependencies <= 2 (thorough 3), values 1 byte, epochs/signatures/flags full width',
    outside='as C01',
    stubs='as C01',
    assumptions=['Inv(i): computedAt <= builtAt <= currentEpoch for every stored result'],
)
_want = ('O1.scanRule', 'O2.scanRequest', 'O2.resume', 'O3.demandRule', 'O7.taskIsComplete')
OBLIGATIONS = [dict(o, name=o['name'].replace('O', 'W', 1)) for o in _m.OBLIGATIONS if o['name'] in _want]
