PROPERTY = dict(
    claim=False,
    na_reason='harness built (recursion step of the tree / structure signature tasks in BuildSystem.cpp, harness/C12/h_fanout.cpp) but it does not reach a verdict: the SAT instance exhausts 16 GB after 160 s of symbolic execution of the BuildValue / StringList / std::string decoding code; the hash content, listing validity and exclusion patterns were not attempted. Not claimed rather than claimed on a check that cannot finish.',
    level='other',
    level_text='Reduced scope. What is decided, by bounded model checking of the real DirectoryTreeSignatureTask / DirectoryTreeStructureSignatureTask in BuildSystem.cpp, is the recursion step: given a listing with one child, the child is requested as a node; if the node is a directory (any file information with the directory bit) the task recurses for the child path with the SAME kind of signature key (structure for a directory-structure input, full tree signature for a directory-tree input); a non-directory child triggers no recursion.  The signature hash itself (which fields of a child enter it), listing validity, exclusion patterns and real directory iteration are NOT decided.',
    level_note='Trusted: clang-14 -O1 IR of BuildSystem.cpp, ir2c (validated each run), CBMC+SAT. TaskInterface::request and llvm::sys::path::append are stubs (recorder / POSIX join).',
    bounds='one directory, one child, arbitrary child file information',
    outside='the hash of inputsAvailable; several children; filters; DirectoryContentsTask; depth > 1 (by induction on this step)',
    stubs='TaskInterface::request -> recorder; llvm::sys::path::append -> join with one separator',
    assumptions=[],
    explanation='A solver verdict on the recursion step of both signature tasks for every child file information; everything else in the property (hash content, listing validity, patterns) is outside this check and stated as such.',
)
COMMON = dict(harness='C12/h_fanout.cpp', entry='harness_fanout', cxxflags=['-I/repo/lib/BuildSystem'], models=['engine'],
              tus=['lib/BuildSystem/BuildValue.cpp', 'lib/BuildSystem/BuildKey.cpp'],
              stubs=['TaskInterface7requestERKNS0_7KeyTypeEm$=stub_request', '^_ZN4llvm3sys4path6appendERNS_15SmallVectorImplIcEERKNS_5TwineES7_S7_S7_$=stub_path_append'],
              noinline=['SignatureTask12provideValue'], expect_functions=['SignatureTask12provideValue'],
              stub_virtual=['SignatureTask(5start|15inputsAvailable|17providePriorValue)', '^_ZN7llbuild4core4Task'], allow_external=['^_ZTV'],
              assert_external=['.'], unwind=34, unwind_loops=[('harness_fanout', 84)], copy_unwind=100, timeout=600, cbmc_flags=['--object-bits', '10'])
OBLIGATIONS = [
    dict(COMMON, name='G3.tree-recursion', params_quick=[{'VF_STRUCT': 0}]),
    dict(COMMON, name='G3.structure-recursion', params_quick=[{'VF_STRUCT': 1}]),
]
