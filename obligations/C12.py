PROPERTY = dict(
    level='other',
    level_text='Reduced scope, bounded: the two signature tasks of BuildSystem.cpp (DirectoryTreeSignatureTask, DirectoryTreeStructureSignatureTask) are decided by CBMC over the real code, one callback at a time. '
               '(G3) the recursion step: each listed child is requested as a node; a directory child is recursed into with the SAME kind of signature key and the same filters; every delivered value is kept for the child it belongs to. '
               '(G1) what the tree signature covers: with the hash functions replaced by an ideal hash, two tasks for the same directory report equal signatures exactly when the directory value, every child value and every sub-signature agree. '
               '(G2) what the structure signature covers: equal exactly when the directory mode, every child NAME and MODE and every sub-signature agree - size, timestamps, inode and device of a child do not enter (content-only changes do not trigger).',
    level_note='Trusted: clang-14 -O1 IR of BuildSystem.cpp, ir2c (validated per query), CBMC 6.11 + MiniSat/CaDiCaL; llvm::hash_* is an ideal hash (transcript); depth > 1 follows by induction on the recursion step together with G1/G2 applied at each level. '
               'NOT decided: that a real file-system change changes a node value / listing (C13 decides FileInfo, the directory-contents task and its validity are not encoded), exclusion patterns (filters are carried, fnmatch is not encoded), re-execution itself (C01).',
    bounds='one directory with 1 child (two children: no verdict in 40 min, not part of any tier); child names 1 byte; full encoded file records with symbolic 64-bit fields; sub-signatures 2 bytes',
    outside='DirectoryContentsTask / FilteredDirectoryContentsTask, fnmatch filters, the non-file fallback branch of the structure signature, real hashing (collisions)',
    stubs='TaskInterface::request / complete -> recorders; llvm::sys::path::append -> POSIX join; llvm::hash_value / hash_combine / hash_combine_range -> ideal hash (position in a per-task transcript)',
    assumptions=['the hash is collision-free on the inputs compared (ideal-hash reading)'],
    explanation='A solver verdict, for every file record and byte value, on what the signature tasks ask the engine for and on exactly which inputs their signature depends.',
)
COMMON = dict(harness='C12/h_fanout.cpp', entry='harness_fanout', cxxflags=['-I/repo/lib/BuildSystem'], models=['engine'],
              tus=['lib/BuildSystem/BuildValue.cpp', 'lib/BuildSystem/BuildKey.cpp', 'lib/Basic/FileInfo.cpp', 'lib/Basic/PlatformUtility.cpp'],
              stubs=['TaskInterface7requestERKNS0_7KeyTypeEm$=stub_request', '^_ZN4llvm3sys4path6appendERNS_15SmallVectorImplIcEERKNS_5TwineES7_S7_S7_$=stub_path_append'],
              noinline=['SignatureTask12provideValue'], expect_functions=['SignatureTask12provideValue'],
              stub_virtual=['SignatureTask(5start|15inputsAvailable|17providePriorValue)', '^_ZN7llbuild4core4Task'], allow_external=['^_ZTV'],
              assert_external=['.'], unwind=34, unwind_loops=[('harness_fanout', 104)], copy_unwind=100, timeout=600, cbmc_flags=['--object-bits', '10'])
SIG = dict(opt_flags=['-disable-loop-idiom-all'],   # keep the recorders' byte loops as loops: CBMC's memcpy with a computed length into an array of structs loses the data
           harness='C12/h_sig.cpp', entry='harness_sig', cxxflags=['-I/repo/lib/BuildSystem'], models=['engine'],
           tus=['lib/BuildSystem/BuildValue.cpp', 'lib/BuildSystem/BuildKey.cpp', 'lib/Basic/FileInfo.cpp', 'lib/Basic/PlatformUtility.cpp'],
           stubs=['TaskInterface8completeEOSt6vectorIhSaIhEEb$=stub_complete',
                  '^_ZN4llvm10hash_valueIcEENS_9hash_codeERKNSt7__cxx1112basic_stringIT_St11char_traitsIS4_ESaIS4_EEE$=stub_hash_string',
                  '^_ZN4llvm18hash_combine_rangeIN9__gnu_cxx17__normal_iteratorIPKhSt6vectorIhSaIhEEEEEENS_9hash_codeET_SA_$=stub_hash_range',
                  '^_ZN4llvm18hash_combine_rangeIN9__gnu_cxx17__normal_iteratorIPhSt6vectorIhSaIhEEEEEENS_9hash_codeET_S9_$=stub_hash_range2',
                  '^_ZN4llvm12hash_combineIJNS_9hash_codeES1_EEES1_DpRKT_$=stub_hash_cc', '^_ZN4llvm12hash_combineIJNS_9hash_codeEmEEES1_DpRKT_$=stub_hash_cu',
                  '^_ZN4llvm12hash_combineIJNS_9hash_codeENSt7__cxx1112basic_stringIcSt11char_traitsIcESaIcEEEEEES1_DpRKT_$=stub_hash_cs'],
           noinline=['SignatureTask15inputsAvailable'], expect_functions=['SignatureTask15inputsAvailable'],
           stub_virtual=['SignatureTask(5start|12provideValue|17providePriorValue)', '^_ZN7llbuild4core4Task'], allow_external=['^_ZTV'],
           assert_external=['.'], unwind=34, unwind_loops=[('harness_sig|encInfo|stub_complete|intern|stub_hash', 100)], copy_unwind=100, timeout=600, cbmc_flags=['--object-bits', '10'])
OBLIGATIONS = [
    dict(SIG, name='G1.tree-signature', params_quick=[{'VF_STRUCT': 0, 'VF_NC': 1}], timeout=900),   # two children: no verdict in 40 min (measured), not part of any tier
    dict(SIG, name='G2.structure-signature', params_quick=[{'VF_STRUCT': 1, 'VF_NC': 1}], timeout=900),
    dict(COMMON, name='G3.tree-recursion', params_quick=[{'VF_STRUCT': 0}], timeout=900),
    dict(COMMON, name='G3.structure-recursion', params_quick=[{'VF_STRUCT': 1}], timeout=900),
]
