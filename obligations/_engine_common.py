# shared by the BuildEngine obligations (C01, C02, C05, C06)
ENG = dict(models=['engine'], copy_unwind=12, tus=['lib/Basic/Tracing.cpp'], assert_external=['BuildEngineTrace'],   # tracing is off (trace == nullptr): a trace call is an encoding error
            native_tus=['lib/llvm/Support/StringMap.cpp', 'lib/Core/BuildEngineTrace.cpp', 'lib/llvm/Support/SmallVector.cpp'], cxxflags=['-I/repo/lib/Core', '-I/verif/harness/engine'], noop_virtual=['HTaskD[012]Ev$'])
EXEC_STUBS = ['BuildEngineImpl8scanRuleERNS0_8RuleInfoE$=stub_scanRule', 'BuildEngineImpl10demandRuleERNS0_8RuleInfoE$=stub_demandRule',
              'BuildEngineImpl17getRuleInfoForKeyEN7llbuild4core5KeyIDE$=stub_getRuleInfoForKey', 'BuildEngineImpl17getRuleInfoForKeyERKN7llbuild4core7KeyTypeE$=stub_getRuleInfoForKeyType',
              'BuildEngineImpl12resolveCycleERKN7llbuild4core7KeyTypeE$=stub_resolveCycle', 'BuildEngineImpl20cancelRemainingTasksEv$=stub_cancelRemainingTasks',
              '_ZNSt18condition_variable4waitERSt11unique_lockISt5mutexE$=stub_cv_wait', '^pthread_mutex_lock$=stub_mutex_lock']
