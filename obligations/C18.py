PROPERTY = dict(
    claim=False,
    na_reason='harness for the validity predicates of the Ninja build driver is written (harness/C18/h_ninja.cpp) but not yet brought to a verdict; end-to-end convergence of `llbuild ninja build` over real commands and files is outside this technique in any case',
    level='other',
    level_text='Reduced scope: the validity predicates of the Ninja build driver (buildCommandIsResultValid, buildInputIsResultValid) for every stored value, command line, generator flag and stat result.',
    level_note='Trusted: clang-14 -O1 IR of NinjaBuildCommand.cpp, ir2c, CBMC+SAT; stat is an arbitrary environment; the command-line hash is replaced by an injective function.',
    bounds='1..2 outputs', outside='everything else in NinjaBuildCommand.cpp', stubs='stat, llvm::hash_value(StringRef)', assumptions=[],
    explanation='kernel-level verdicts only',
)
COMMON = dict(harness='C18/h_ninja.cpp', entry='harness_ninja', cxxflags=['-I/repo/lib/Commands', '-I/repo/lib'], models=['engine'],
              tus=['lib/Basic/FileInfo.cpp', 'lib/Basic/PlatformUtility.cpp'],
              stubs=['^stat$=vf_stat', '^_ZN4llvm10hash_valueENS_9StringRefE$=stub_hash_value_sr'],
              noinline=['buildCommandIsResultValid', 'buildInputIsResultValid'], expect_functions=['IsResultValid'],
              stub_virtual=['.'], allow_external=['^_ZTV'], assert_external=['.'], unwind=8, copy_unwind=130, timeout=600, cbmc_flags=['--object-bits', '10'])
OBLIGATIONS = [
    dict(COMMON, name='U1.commandValid', params_quick=[{'VF_CASE': 0, 'VF_K': k, 'VF_KIND': kd} for k in (1, 2) for kd in (0, 1, 2)]),
    dict(COMMON, name='U2.inputValid', params_quick=[{'VF_CASE': 1, 'VF_K': 1, 'VF_KIND': kd} for kd in (0, 1)], unwindset='memcmp.0:60'),
]
