PROPERTY = dict(
    level='other',
    level_text='Reduced scope, bounded: the decision kernels of the Ninja build driver (lib/Commands/NinjaBuildCommand.cpp) are decided by CBMC over the real code, one engine callback at a time: '
               '(U1/U2) the validity predicates for every stored value, command line, generator flag and stat result; (U3) start(): explicit and implicit inputs requested with their position as input id, order-only inputs as must-follow; '
               '(U4) provideValue*/providePriorValue/inputsAvailable: run, bring up to date without running, or skip, for every combination of input value kinds, file records, stored result, command-line hashes, flags and stat results; '
               '(U5) the queued job: shell invocation, failure/success recording with restat, and the hand-off of depfile-discovered dependencies to the engine.',
    level_note='Trusted: clang-14 -O1 IR of NinjaBuildCommand.cpp, ir2c (validated per query against the native build of the same IR), CBMC 6.11 + MiniSat/CaDiCaL. '
               'NOT decided: the end-to-end statement (contents after `llbuild ninja build` equal a clean build for every manifest and edit history) - that is a composition of these kernels with the engine (C01-C06), '
               'the manifest loader (C17) and the database (C03/C04) over real commands and files, which no bounded sequential query covers.',
    bounds='1..2 outputs, 0..2 explicit + 0..1 implicit + 0..2 order-only inputs, 1-byte command lines (ideal hash), one depfile dependency of 2 bytes; all 64-bit file-record fields symbolic',
    outside='manifest loading, the engine, the database, real process execution, response files, console pool, profiling, status output; the unreadable-depfile path; normalize_path (contract stub); simulate mode output',
    stubs='stat (arbitrary result per path), llvm::hash_value(StringRef) (injective on the strings used), TaskInterface::{request,mustFollow,discoveredDependency,complete,spawn} (recorders; spawn runs the job / completes the process with an arbitrary status), '
          'BuildContext::{emitError,emitStatus,emitNote,reportMissingInput,incrementFailedCommands}, writeDescription, util::readFileContents (file present), MakefileDepsParser::parse (its contract: one rule, one dependency), Manifest::normalize_path (contract)',
    assumptions=['input values handed to a command task are single-output values (asserted by the code under test)', 'the depfile exists when the command succeeded'],
    explanation='Each obligation drives one callback of the real NinjaCommandTask (obtained from the real buildCommand()) from a symbolic state and compares what it tells the engine with the rule the property states: '
                'order-only inputs only order; a failed, skipped or missing input stops the command and is recorded as skipped; a changed command line or a missing/older output runs it; an unchanged, up-to-date command is not run; '
                'a failing process is recorded as failed and propagated; every depfile path is registered as a discovered dependency.',
)
COMMON = dict(harness='C18/h_ninja.cpp', entry='harness_ninja', cxxflags=['-I/repo/lib/Commands', '-I/repo/lib'], models=['engine'],
              tus=['lib/Basic/FileInfo.cpp', 'lib/Basic/PlatformUtility.cpp'],
              stubs=['^stat$=vf_stat', '^_ZN4llvm10hash_valueENS_9StringRefE$=stub_hash_value_sr'], unwindset='memcmp.0:60,G_stub_complete.0:270',
              noinline=['buildCommandIsResultValid', 'buildInputIsResultValid'], expect_functions=['IsResultValid'],
              stub_virtual=['.'], allow_external=['^_ZTV'], assert_external=['.'], unwind=8, copy_unwind=130, timeout=600, cbmc_flags=['--object-bits', '10'])
OBLIGATIONS = [
    dict(COMMON, name='U1.commandValid', params_quick=[{'VF_CASE': 0, 'VF_K': k, 'VF_KIND': kd} for k in (1, 2) for kd in (0, 1, 2)]),
    dict(COMMON, name='U2.inputValid', params_quick=[{'VF_CASE': 1, 'VF_K': 1, 'VF_KIND': kd} for kd in (0, 1)]),
]
TI = '^_ZN7llbuild4core13TaskInterface'
TASK = dict(COMMON, allow_external=['^_ZTV', '2IDE$', '^__libc_single_threaded$', '^_ZSt15__once_callable$', '^_ZSt11__once_call$'], noinline=['buildCommand'], expect_functions=['NinjaCommandTask'], stub_virtual=['^(?!.*NinjaCommandTask).'],
            stubs=COMMON['stubs'] + [TI + '7requestERKNS0_7KeyTypeEm$=stub_request', TI + '10mustFollowERKNS0_7KeyTypeE$=stub_mustFollow', TI + '20discoveredDependencyERKNS0_7KeyTypeE$=stub_discovered',
                                     TI + '8completeEOSt6vectorIhSaIhEEb$=stub_complete', TI + '5spawnEONS_5basic8QueueJobENS2_16QueueJobPriorityE$=stub_spawn_job',
                                     'BuildContext18reportMissingInputEPKN7llbuild5ninja4NodeE$=stub_reportMissingInput', 'BuildContext23incrementFailedCommandsEv$=stub_incrementFailed', 'BuildContext9emitErrorEPKcz$=stub_emitError', 'BuildContext10emitStatusEPKcz$=stub_emitStatus', 'BuildContext8emitNoteEPKcz$=stub_emitStatus2', 'NinjaCommandTask16writeDescriptionE.*$=stub_writeDescription'])
JOB = dict(TASK, tus=COMMON['tus'] + ['lib/Core/MakefileDepsParser.cpp'], stubs=TASK['stubs'] + [TI + '5spawnEPNS_5basic15QueueJobContextE.*ProcessDelegateE$=stub_spawn_proc', '^_ZN7llbuild8commands4util16readFileContentsEN4llvm9StringRefE$=stub_readFileContents',
                                       '^_ZN7llbuild4core18MakefileDepsParser5parseEv$=stub_parse', 'Manifest14normalize_pathE.*$=stub_normalize_path'],
           noop_virtual=['HBufD[012]Ev$', 'HQCtxD[012]Ev$'], stub_virtual=['^(?!.*(NinjaCommandTask|HBuf|HQCtx)).'])
OBLIGATIONS += [
    dict(JOB, name='U5.job', params_quick=[{'VF_CASE': 4, 'VF_K': k, 'VF_DEPS': d} for (k, d) in ((1, 0), (2, 0), (1, 1))], params_thorough=[{'VF_CASE': 4, 'VF_K': k, 'VF_DEPS': d} for k in (1, 2) for d in (0, 1)]),
    dict(TASK, name='U3.start', params_quick=[{'VF_CASE': 2, 'VF_E': e, 'VF_I': i, 'VF_O': o} for (e, i, o) in ((1, 0, 0), (1, 1, 1), (0, 0, 1), (2, 1, 0), (1, 0, 2))],
         params_thorough=[{'VF_CASE': 2, 'VF_E': e, 'VF_I': i, 'VF_O': o} for e in (0, 1, 2) for i in (0, 1) for o in (0, 1, 2) if 0 < e + i + o <= 4]),
    dict(TASK, name='U4.decision', params_quick=[{'VF_CASE': 3, 'VF_E': e, 'VF_K': k, 'VF_DEPS': d} for (e, k, d) in ((0, 1, 0), (1, 1, 0), (2, 1, 0), (1, 2, 0), (1, 1, 1))],
         params_thorough=[{'VF_CASE': 3, 'VF_E': e, 'VF_K': k, 'VF_DEPS': d} for e in (0, 1, 2) for k in (1, 2) for d in (0, 1)]),
]
