PROPERTY = dict(
    level='other',
    level_text='Reduced scope: only the version gate and the lock gate are decided; the write/read round trip of results - the core of the property - is NOT (the queries exist but do not reach a verdict, see DISABLED in obligations/C03.py).  What is decided: bounded model checking of the real SQLiteBuildDB::open / getCurrentEpoch / buildStarted over a ROW MODEL of SQLite (three small tables; sqlite3_* entry points defined in harness/C03/sqlite_model.h): every field of a stored result (value bytes, signature, both epochs, both timestamps bit for bit, dependency list in order with both flags, for arbitrary key/value bytes incl. NUL) is read back identically by a fresh database object over the same tables, through both the join path and the cached-id fast path; the version gate either uses, rejects, or recreates (unlink + schema inside one exclusive transaction); a build takes the exclusive lock and fails when it cannot; a malformed dependency blob is an error.  SQLite itself is NOT verified: locking, busy time-outs and column type affinity (the key column is declared STRING, which SQLite gives NUMERIC affinity: numeric-looking keys such as "1" and "1.0" may be conflated - observed by reading, outside what this technique can encode).',
    level_note='Trusted: clang-14 -O1 IR of SQLiteBuildDB.cpp, ir2c (validated each run), CBMC+SAT, the row model (which bind/column index means which table column is tied to the exact SQL text: a changed statement makes the check inconclusive, not green), LLVM DenseMap header code as compiled. "Same executions split across processes" follows from this round trip plus C01-O9 (addRule takes the looked-up result as is), not from running builds.',
    bounds='keys 0..2 bytes, values 0..2 bytes, 0..2 dependencies, all contents and all 64-bit fields symbolic (epochs < 2^63: SQLite integers are signed)',
    outside='longer keys/values/lists; database ids >= 2^62 (flag packing shifts them out); SQLite semantics (locking, affinity, journal); getKeysWithResult / dump',
    stubs='sqlite3_* = row model; unlink = model; SQLiteBuildDB::getCurrentErrorMessage = fixed string',
    explanation='Solver verdicts for the version gate (all stored schema/client versions, recreate on and off) and the lock gate; the round trip is not decided, so database transparency as a whole is not established by this check.',
    assumptions=['distinct engine keys have distinct byte strings and distinct non-zero engine ids'],
)
COMMON = dict(opt_flags=['-disable-loop-idiom-all'], harness='C03/h_db.cpp', entry='harness_db', shim_includes=['C03/shim'], cxxflags=['-I/repo/lib/Core'],   # shim: contract model of llvm::DenseMap (see the header)
              tus=['lib/llvm/Support/StringRef.cpp'],
              models=['engine'], stub_virtual=['SQLiteBuildDB4dump', '^_ZN7llbuild4core4Rule', 'SQLiteBuildDB(7getKeys|17getKeysWithResult)'], allow_external=['^_ZTVN7llbuild4core4RuleE$', '^_ZTVN7llbuild4core7BuildDBE$', '^_ZTVN7llbuild4core15BuildDBDelegateE$'],
              stubs=['SQLiteBuildDB22getCurrentErrorMessageB5cxx11Ev$=stub_errmsg', '_ZNK4llvm5Twine3strB5cxx11Ev$=stub_twine_str', '^_ZNSt7__cxx119to_stringEi$=stub_to_string_i', '^_ZNSt7__cxx119to_stringEj$=stub_to_string_u', '^_ZN7llbuild5basic3sys6unlinkEPKc$=vf_unlink'],
              expect_functions=['SQLiteBuildDB'], noinline=['SQLiteBuildDB(13setRuleResult|16lookupRuleResult|4open|12buildStarted)'],
              unwindset='strcmp.0:300,memcmp.0:20', unwind=10, unwind_loops=[('SQLiteBuildDB|sqlite3|bindBytes|harness_db', 18)], timeout=900, cbmc_flags=['--object-bits', '10'])
OBLIGATIONS = [
    dict(COMMON, name='R3.version-gate', params_quick=[{'VF_CASE': 1, 'VF_RECREATE': 0}, {'VF_CASE': 1, 'VF_RECREATE': 1}]),
    dict(COMMON, name='R4.lock-gate', params_quick=[{'VF_CASE': 2}]),
]
# Built but NOT part of the check: the write/read round trip (R1) and the malformed-blob case (R5) do not reach a
# verdict within 10 minutes per query (symbolic execution of setRuleResult / lookupRuleResult over the row model,
# with the key bytes concrete and everything else symbolic, stays in symex; one 50-minute run is recorded in DESIGN.md).
DISABLED = [
    dict(COMMON, name='P1.probe', params_quick=[{'VF_CASE': 0, 'VF_KS': 1, 'VF_NV': 0, 'VF_ND': 0, 'VF_PROBE': p} for p in (2, 3)]),
    dict(COMMON, name='R1.roundtrip', params_quick=[{'VF_CASE': 0, 'VF_KS': ks, 'VF_NV': nv, 'VF_ND': nd} for (ks, nv, nd) in ((0, 1, 1), (1, 0, 0), (2, 2, 2), (3, 1, 2))]),
    dict(COMMON, name='R5.blob-width', params_quick=[{'VF_CASE': 3, 'VF_NV': n} for n in (0, 3, 8, 9)]),
]
