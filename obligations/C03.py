PROPERTY = dict(
    level='model_checking',
    level_text='Bounded model checking of the real SQLiteBuildDB (lib/Core/SQLiteBuildDB.cpp) over a row model of SQLite. (R1) round trip: a result written by setRuleResult in one database object and read by lookupRuleResult in a FRESH object over the same tables '
               '(a later process) comes back identical - value bytes, signature, both epochs, both timestamps bit for bit, and the dependency list in order with each order-only and single-use flag - for keys with NUL bytes, the empty key, prefixes of one another and high bytes; '
               'the cached fast path of a second lookup agrees; every write lies inside the build transaction; key rows exist before the result row that refers to them. '
               '(R5) a stored dependency blob that is not a whole number of 8-byte entries is an error, never a guess. (R3) version gate: a database of another schema or client version is rejected or recreated empty, never interpreted. (R4) lock gate: a build takes the exclusive lock and cannot start while it is held.',
    level_note='Trusted: clang-14 -O1 IR of SQLiteBuildDB.cpp, ir2c (validated each run), CBMC 6.11 + MiniSat/CaDiCaL, the row model (which bind/column index means which table column is tied to the exact SQL text: a changed statement makes the check inconclusive, not green), '
               'the array-backed contract model of llvm::DenseMap. NOT decided: "same executions split across processes" as a whole (that is C01 composed with this round trip), SQLite itself (type affinity of the key column, locking, journal).',
    bounds='keys 0..3 bytes (four concrete triples of pairwise distinct lengths), values 0..2 bytes, 0..2 dependencies with a concrete flag pattern per query (all 4^n thorough), all value bytes and all 64-bit fields symbolic (epochs < 2^63: SQLite integers are signed)',
    outside='longer keys/values/lists; database ids >= 2^62 (flag packing shifts them out); SQLite semantics (locking, affinity, journal); getKeysWithResult / dump',
    stubs='sqlite3_* = row model; unlink = model; SQLiteBuildDB::getCurrentErrorMessage = fixed string; llvm::DenseMap = array-backed contract model',
    explanation='Solver verdicts for the write/read round trip, the malformed-blob case, the version gate and the lock gate of the real database class, with every stored payload symbolic.',
    assumptions=['distinct engine keys have distinct byte strings and distinct non-zero engine ids', 'the keys of one query have pairwise distinct lengths (row selection by length; byte equality is asserted, not assumed)'],
)
COMMON = dict(opt_flags=['-disable-loop-idiom-all'], byte_copy='loop', copy_unwind=120, harness='C03/h_db.cpp', entry='harness_db', shim_includes=['C03/shim'], cxxflags=['-I/repo/lib/Core'],   # shim: contract model of llvm::DenseMap (see the header)
              tus=['lib/llvm/Support/StringRef.cpp'],
              models=['engine'], stub_virtual=['SQLiteBuildDB4dump', '^_ZN7llbuild4core4Rule', 'SQLiteBuildDB(7getKeys|17getKeysWithResult)'], allow_external=['^_ZTVN7llbuild4core4RuleE$', '^_ZTVN7llbuild4core7BuildDBE$', '^_ZTVN7llbuild4core15BuildDBDelegateE$'],
              stubs=['SQLiteBuildDB22getCurrentErrorMessageB5cxx11Ev$=stub_errmsg', '_ZNK4llvm5Twine3strB5cxx11Ev$=stub_twine_str', '^_ZNSt7__cxx119to_stringEi$=stub_to_string_i', '^_ZNSt7__cxx119to_stringEj$=stub_to_string_u', '^_ZN7llbuild5basic3sys6unlinkEPKc$=vf_unlink'],
              expect_functions=['SQLiteBuildDB'], noinline=['SQLiteBuildDB(13setRuleResult|16lookupRuleResult|4open|12buildStarted)'],
              unwindset='strcmp.0:300,memcmp.0:20', unwind=10, unwind_loops=[('SQLiteBuildDB|sqlite3|bindBytes|harness_db', 18)], timeout=900, cbmc_flags=['--object-bits', '10'])
def rt(tier):
    # write/read round trip: one query per (key triple, value length, number of dependencies, flag pattern)
    if tier == 'quick':
        combos = [(0, 1, 1, 1), (0, 2, 2, 14), (1, 0, 0, 0), (1, 1, 2, 7), (2, 2, 2, 6), (2, 0, 1, 2), (3, 1, 2, 9), (3, 2, 1, 3)]
    else:
        combos = [(ks, nv, nd, fl) for ks in range(4) for nv in (0, 1, 2) for nd in (0, 1, 2) for fl in range(4 ** nd)]
    out = [{'VF_CASE': 0, 'VF_KS': ks, 'VF_NV': nv, 'VF_ND': nd, 'VF_FL': fl} for (ks, nv, nd, fl) in combos]
    # the same key requested twice with different flags (order-only then plain, single-use then plain, ...)
    out += [{'VF_CASE': 0, 'VF_KS': ks, 'VF_NV': 1, 'VF_ND': 2, 'VF_FL': fl, 'VF_SAMEDEP': 1} for ks in ((0, 2) if tier == 'quick' else range(4)) for fl in ((1, 2, 4) if tier == 'quick' else range(16))]
    return out
OBLIGATIONS = [
    dict(COMMON, name='R1.roundtrip', params_quick=rt('quick'), params_thorough=rt('thorough')),
    dict(COMMON, name='R5.blob-width', params_quick=[{'VF_CASE': 3, 'VF_NV': n} for n in (0, 3, 8, 9)], params_thorough=[{'VF_CASE': 3, 'VF_NV': n} for n in range(0, 16)]),
    dict(COMMON, name='R3.version-gate', params_quick=[{'VF_CASE': 1, 'VF_RECREATE': 0}, {'VF_CASE': 1, 'VF_RECREATE': 1}]),
    dict(COMMON, name='R4.lock-gate', params_quick=[{'VF_CASE': 2}]),
]
DISABLED = [
    dict(COMMON, name='P1.probe', params_quick=[{'VF_CASE': 0, 'VF_KS': 1, 'VF_NV': 0, 'VF_ND': 0, 'VF_PROBE': p} for p in (2, 3)]),
]
