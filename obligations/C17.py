PROPERTY = dict(
    level='model_checking',
    level_text='Bounded model checking of the Ninja front-end kernels on the real code against references written from the Ninja manual and POSIX sh: keyword recognition for every identifier of 4..8 letters, $-expansion (evalString) for every string up to the bound over the special-character alphabet, and shell quoting checked by a reference sh word parser. Whole-manifest agreement with a reference Ninja is NOT decided (no reference Ninja exists in the solver world); the claim is exactly these kernels within these bounds.',
    level_note='Trusted: clang-14 -O1 IR, ir2c (validated each run), CBMC+SAT, the references in harness/C17 (written from the Ninja manual / POSIX 2.2-2.6), recording stubs for raw_ostream::write. Scoping order (build over rule over file), include/subninja scopes and lazy rule variables are not decided by this check.',
    bounds='identifiers 4..8 lower-case letters; evalString inputs <= 4 (thorough 6) bytes over {$,{,},space,:,newline,a,_,.,0x80}; shell-quoting inputs <= 4 (6) bytes over {a,quote,space,$,backslash,dquote,#,~,=,newline,0x80}',
    outside='$in/$out expansion inside look-up; scope chains deeper than one file; longer strings; "${}" (empty name, undefined by the manual); tabs after a line continuation; lookupBuildParameter scoping order; Parser/ManifestLoader as a whole',
    stubs='raw_ostream::write(const char*,size_t) and write(unsigned char) -> recorder; look-up and error callbacks -> recorder',
    assumptions=['string tokens contain a newline only directly after a $ (lexer invariant, checked by C19-H1 tiling)'],
)
def lens(lo, hi, extra=None):
    return [dict({'VF_N': n}, **(extra or {})) for n in range(lo, hi + 1)]
STREAM = ['_ZN4llvm11raw_ostream5writeEPKcm=vf_os_write', '_ZN4llvm11raw_ostream5writeEh=vf_os_putc']
OBLIGATIONS = [
    dict(name='N2.lexer-step', harness='C19/h_lexer.cpp', entry='harness_lexer', tus=['lib/Ninja/Lexer.cpp'],
         noinline=[r'Lexer3lexE'], expect_functions=[r'Lexer3lexE'], unwind=10, unwind_is_oracle=True,
         params_quick=lens(0, 4), params_thorough=lens(0, 6), unwind_thorough=14, timeout=900),   # token extents in every lexing mode (same harness as C19-H1)
    dict(name='N1.keywords', harness='C19/h_lexer.cpp', entry='harness_lexer', tus=['lib/Ninja/Lexer.cpp'],
         noinline=[r'Lexer3lexE'], expect_functions=[r'Lexer3lexE'], unwind=10, cxxflags=['-DVF_IDENT=1'],
         params_quick=[{'VF_N': 4}, {'VF_N': 5}, {'VF_N': 7}, {'VF_N': 8}], params_thorough=lens(1, 9), unwind_thorough=11, timeout=900),
    dict(name='N3.evalString', harness='C17/h_eval.cpp', entry='harness_eval', stubs=STREAM, tus=['lib/llvm/Support/raw_ostream.cpp'],
         noinline=[r'ManifestLoaderImpl10evalString'], expect_functions=[r'ManifestLoaderImpl10evalString'],
         unwind='VF_N+2', cbmc_flags=['--object-bits', '11'], params_quick=lens(0, 4), params_thorough=lens(0, 6), timeout=900),
    dict(name='N4.shellQuote', harness='C17/h_shell.cpp', entry='harness_shell', stubs=STREAM,
         tus=['lib/Basic/ShellUtility.cpp', 'lib/llvm/Support/raw_ostream.cpp', 'lib/llvm/Support/StringRef.cpp'],
         noinline=[r'appendShellEscapedString', r'StringRef17find_first_not_ofES0_m', r'StringRef13find_first_ofES0_m'], expect_functions=[r'appendShellEscapedString'],
         unwind='4*VF_N+4', unwindset='strlen.0:90,G__ZNK4llvm9StringRef17find_first_not_ofES0_m.0:80,G__ZNK4llvm9StringRef13find_first_ofES0_m.0:80', params_quick=lens(1, 4), params_thorough=lens(1, 6), timeout=900),
]
# N5 (look-up order / lazy rule variables, harness C17/h_lookup.cpp) is built but does not reach a verdict:
# the real llvm::StringMap probing and std::string code need > 600 s per query even with the binding shape concrete.
# H5 (a rule variable that refers to itself) is how the defect repaired in /repo 27b9d8a was noticed: a first version of this query reported a failing
# unwinding assertion whose replay overflowed the stack natively (ASan: stack-overflow in lookupBuildParameterImpl <-> evalString); the crash was then
# reproduced with the public tool (findings/C19-rule-variable-recursion: `llbuild ninja load-manifest` segfaults on `command = echo $command`).
# The query itself does NOT reach a verdict - neither on the repaired nor, in its final configuration, on the unrepaired tree (symex explores the
# look-up recursion with a fan-out of 3 -> 13 -> 75 calls per level because the bytes of the bound value are not constants for it) - so it is not
# part of any check and the repair is NOT guarded by a solver query; the demo script is the regression test.  See DESIGN.md section 5.
DISABLED = [
    dict(name='H5.rule-variable-recursion', harness='C17/h_recur.cpp', entry='harness_recur', stubs=STREAM + ['ManifestLoaderImpl10evalStringEPvN4llvm9StringRefE.*$=stub_evalString',
             '^_ZStplIcSt11char_traitsIcESaIcEENSt7__cxx1112basic_stringIT_T0_T1_EEOS8_PKS5_$=stub_plus_a', '^_ZStplIcSt11char_traitsIcESaIcEENSt7__cxx1112basic_stringIT_T0_T1_EEOS8_S9_$=stub_plus_b',
             '^_ZStplIcSt11char_traitsIcESaIcEENSt7__cxx1112basic_stringIT_T0_T1_EEPKS5_OS8_$=stub_plus_c', '^_ZStplIcSt11char_traitsIcESaIcEENSt7__cxx1112basic_stringIT_T0_T1_EERKS8_PKS5_$=stub_plus_d'], byte_copy='loop', copy_unwind=40, shim_includes=['C17/shim'],
         tus=['lib/llvm/Support/raw_ostream.cpp', 'lib/llvm/Support/StringRef.cpp'], noinline=[r'ManifestLoaderImpl24lookupBuildParameterImpl'], expect_functions=[r'ManifestLoaderImpl24lookupBuildParameterImpl'],
         stub_virtual=['ManifestLoaderImpl(?!5error)', '^_ZN7llbuild5ninja12ParseActions', 'JobDescriptor', 'ninja7Command'], allow_external=['^_ZTV'], assert_external=['.'],
         unwind=4, unwind_is_oracle=True, cxxflags=['-DVF_SM_KEY=2'],   # a shallow bound: the repaired code needs recursion depth 2, the unrepaired one exceeds every bound
         noop_virtual=['HBufD[012]Ev$'], params_quick=[{'VF_VIA': 0}, {'VF_VIA': 1}], timeout=600, cbmc_flags=['--object-bits', '10']),
    dict(name='N5.lookup-order', harness='C17/h_lookup.cpp', entry='harness_lookup', stubs=STREAM + ['ManifestLoaderImpl10evalStringEPvN4llvm9StringRefE.*$=stub_evalString'], byte_copy='loop', copy_unwind=40, shim_includes=['C17/shim'],   # shim: contract model of llvm::StringMap (see the header)
        
         tus=['lib/llvm/Support/raw_ostream.cpp', 'lib/llvm/Support/StringRef.cpp'],
         noinline=[r'ManifestLoaderImpl24lookupBuildParameterImpl'], expect_functions=[r'ManifestLoaderImpl24lookupBuildParameterImpl'],
         stub_virtual=['ManifestLoaderImpl(?!5error)', '^_ZN7llbuild5ninja12ParseActions', 'JobDescriptor', 'ninja7Command'], allow_external=['^_ZTV'], assert_external=['.'],
         unwind=8, unwind_loops=[('StringMap|HashString', 20)], params_quick=[{'VF_MASK': m} for m in (0, 1, 2, 6, 14, 16, 18, 31)], params_thorough=[{'VF_MASK': m} for m in range(32)], timeout=600, cbmc_flags=['--object-bits', '10']),
]
