PROPERTY = dict(
    level='model_checking',
    level_text='Bounded model checking (all field values, fixed-size records) of the real change-detection kernels: record equality over every pair of 80-byte records, the stat-to-record conversion for every stat result, both file-system wrappers over an arbitrary inner file system, and the data flow of the content digest. All inputs are covered by the solver; there is no size bound other than the fixed record layout and <= 2 read chunks for the digest.',
    level_note='Trusted: clang-14 -O1 IR, ir2c (validated each run), CBMC+SAT. stat/lstat, fopen/fread/fclose and the MD5 primitive are environment stubs (arbitrary results); that MD5 itself separates contents is an axiom about the hash, not checked. What metadata the operating system changes when a file is touched is the OS contract.',
    bounds='two arbitrary FileInfo records (all 64-bit fields and 32 checksum bytes symbolic); arbitrary stat buffer and return code; file content delivered in <= 2 chunks of <= 16 bytes',
    outside='collision resistance of MD5/SHA-256; symlink checksum path (readlink, FFI); Windows/Apple variants',
    stubs='stat, lstat, fopen, fread, fclose, llvm::MD5::{MD5,update,final}; inner FileSystem = arbitrary records',
    assumptions=['inner file system contract: a missing object has the all-zero record and all-zero checksum'],
)
OBLIGATIONS = [
    dict(name='I1.equality', harness='C13/h_eq.cpp', entry='harness_eq', noinline=['vf_unit_eq', 'vf_unit_ne'], expect_functions=['vf_unit_eq'], unwind=34, params_quick=[{}]),
    dict(name='I2.stat', harness='C13/h_stat.cpp', entry='harness_stat', tus=['lib/Basic/FileInfo.cpp', 'lib/Basic/PlatformUtility.cpp'],
         stubs=['^stat$=vf_stat', '^lstat$=vf_lstat'], noinline=['FileInfo14getInfoForPath'], expect_functions=['FileInfo14getInfoForPath'], unwind=34, params_quick=[{}]),
    dict(name='I3.deviceAgnostic', harness='C13/h_wrap.cpp', entry='harness_wrap', tus=['lib/Basic/FileSystem.cpp'], stub_virtual=['getFileContents'], unwind=34, params_quick=[{'VF_MODE': 0}],
         expect_functions=['DeviceAgnosticFileSystem11getFileInfo'], noinline=['DeviceAgnosticFileSystem11getFileInfo', 'DeviceAgnosticFileSystem11getLinkInfo']),
    dict(name='I3.checksumOnly', harness='C13/h_wrap.cpp', entry='harness_wrap', tus=['lib/Basic/FileSystem.cpp'], stub_virtual=['getFileContents', 'ChecksumOnlyFileSystem11getLinkInfo'], unwind=34, params_quick=[{'VF_MODE': 1}],
         expect_functions=['ChecksumOnlyFileSystem11getFileInfo'], noinline=['ChecksumOnlyFileSystem11getFileInfo']),
    dict(name='I4.digest', harness='C13/h_digest.cpp', entry='harness_digest', tus=['lib/Basic/FileInfo.cpp', 'lib/Basic/PlatformUtility.cpp'],
         stubs=['^stat$=vf_stat', '^fopen$=vf_fopen', '^fread$=vf_fread', '^fclose$=vf_fclose', '_ZN4llvm3MD56updateENS_9StringRefE=vf_md5_update',
                '_ZN4llvm3MD55finalERNS0_9MD5ResultE=vf_md5_final', '_ZN4llvm3MD5C[12]Ev=vf_md5_ctor'],
         noinline=['FileChecksum18getChecksumForPath'], expect_functions=['FileChecksum18getChecksumForPath'], unwind=34, params_quick=[{}]),
]
