# shared by the BuildSystem-level obligations (C08, C09, C10)
EXT = dict(harness='bs/h_extcmd.cpp', entry='harness_extcmd',
           tus=['lib/BuildSystem/ExternalCommand.cpp', 'lib/BuildSystem/BuildNode.cpp', 'lib/BuildSystem/BuildValue.cpp', 'lib/BuildSystem/BuildKey.cpp', 'lib/BuildSystem/BuildDescription.cpp'],
           stubs=['BuildSystem13getFileSystemEv$=stub_getFileSystem'], models=['engine'],
           stub_virtual=['ExternalCommand(7execute|5start|18configure|15configure|20computeCommandResult)', 'BuildNode18configureAttribute', '^_ZNK?7llbuild11buildsystem7Command(?!D)', 'JobDescriptor'],
           assert_external=['^_ZN4llvm3sys', '^_ZN7llbuild4core13TaskInterface', 'raw_ostream', 'Twine', 'BuildSystem'], allow_external=['^_ZTV'],
           unwind=6, unwindset='memcmp.0:40', timeout=600, cbmc_flags=['--object-bits', '10'])

NOSIG = ['ExternalCommand12getSignature']   # the signature is not part of these obligations: keep the hash code out of the encoding
HASH_STUBS = ['^_ZN4llvm10hash_valueENS_9StringRefE$=stub_hash_value_sr', '^_ZN4llvm12hash_combineIJmNS_9StringRefEEEENS_9hash_codeEDpRKT_$=stub_hash_combine_sr',
              '^_ZN4llvm12hash_combineIJmNSt7__cxx1112basic_stringIcSt11char_traitsIcESaIcEEEEEENS_9hash_codeEDpRKT_$=stub_hash_combine_str', '^_ZN4llvm12hash_combineIJmbEEENS_9hash_codeEDpRKT_$=stub_hash_combine_bool']
