from _engine_common import ENG, EXEC_STUBS
PROPERTY = dict(
    level='model_checking',
    level_text='Bounded model checking of the real cancellation path: cancelRemainingTasks from a symbolic state with two computing tasks (any subset already reported, the rest reporting in any order through the real taskIsComplete while the engine waits), a waiting task and a scanning rule: it returns only after every computing task reported, never blocks with a queued completion or with nobody left to report, leaves every queue empty, marks nothing complete and persists nothing; executeTasks observes the cancellation flag at the loop top; build() returns the empty value and still brackets the database.  Cancellation "from a foreign thread at any moment" is reduced to these, since the flag is only read at the loop top.',
    level_note='Trusted: as C01. Tasks already computing do report (premise of the property): the wait() stub lets one still-computing task report and asserts that one exists. True concurrent delivery of cancelBuild is not explored; the execution queue (cancelAllJobs) is a stub.',
    bounds='two computing tasks + one waiting task + one scanning rule; any reported subset, any reporting order',
    outside='more than two computing tasks; cancellation racing with task discovery calls; LaneBasedExecutionQueue (C16)',
    stubs='condition_variable::wait = environment; Rule/Task/Delegate recording stubs; BuildDB = recording stub',
    assumptions=['tasks already computing do report completion'],
)
OBLIGATIONS = [
    dict(ENG, name='X1.cancelRemainingTasks', harness='engine/h_cancel.cpp', entry='harness_cancel', noinline=['BuildEngineImpl20cancelRemainingTasks', 'BuildEngineImpl14taskIsComplete'],
         expect_functions=['BuildEngineImpl20cancelRemainingTasks'], stubs=['_ZNSt18condition_variable4waitERSt11unique_lockISt5mutexE$=stub_cv_wait', '^pthread_mutex_lock$=stub_mutex_lock', '^pthread_mutex_unlock$=stub_mutex_unlock'], unwind=5, params_quick=[{}, {'VF_NEXT': 1}, {'VF_NEXT': 2}], timeout=900, cbmc_flags=['--object-bits', '12']),
    dict(ENG, name='X3.cancel-flag', harness='engine/h_cancelflag.cpp', entry='harness_cancelflag', noinline=['BuildEngineImpl12executeTasks'], expect_functions=['BuildEngineImpl12executeTasks'],
         stubs=EXEC_STUBS, unwind=4, params_quick=[{}], timeout=600),
    dict(ENG, name='X3.build-brackets', harness='engine/h_build.cpp', entry='harness_build', noinline=['BuildEngineImpl5buildERKN7llbuild4core7KeyTypeE'], expect_functions=['BuildEngineImpl5buildERKN7llbuild4core7KeyTypeE'],
         stubs=['BuildEngineImpl12executeTasksERKN7llbuild4core7KeyTypeE$=stub_executeTasks', 'BuildEngineImpl17getRuleInfoForKeyERKN7llbuild4core7KeyTypeE$=stub_getRuleInfoForKeyType'],
         unwind=5, params_quick=[{}], timeout=600),
]
