PROPERTY = dict(
    level='model_checking',
    level_text='Reduced scope. Bounded model checking of the real dependency-file readers: (D1) every path of the stated length over the characters special to the Makefile format, written with the documented escaping, is recovered byte for byte by lexWord, which also stops exactly at the end of the escaped text (followed by a separator or by the end of the file); (D2) a well-framed dependency-info file delivers every record once, in order, under the right callback, operand byte for byte; malformed framing and truncated escapes are C19 (H2, H3). (D3) the hand-off of ShellCommand::processMakefileDiscoveredDependencies: with the parser replaced by its contract (raw slice + unescaped word), the UNESCAPED path - joined to the working directory iff relative - is registered once as a discovered dependency on its node key.  (D4) the loop over the dependency files of a command: the result is success exactly when every file could be read and parsed, the contents of each file go to the front end of the declared style, in order.  The later re-execution is C01-O6/O2; the dependency-info hand-off is not decided.',
    level_note='Trusted: clang-14 -O1 IR, ir2c (validated each run), CBMC+SAT. The writer used for D1 is the documented escaping, implemented in the harness.',
    bounds='paths 0..3 bytes (thorough 0..5) over {a, space, #, $, backslash, /, ., 0x80}; 1..2 records with operands of 1..2 non-NUL bytes',
    outside='ShellCommand::processDiscoveredDependencies (path resolution against the working directory, FFI getcwd); multi-rule dependency files (MakefileDepsParser::parse as a whole: C19-H2b, n <= 1); colons inside paths',
    stubs='none',
    assumptions=[],
)
def shapes(nmax):
    # one query per (length, absolute?, escaping shape): a base-3 digit per byte - plain / backslash-escaped / '$$'
    out = []
    for n in range(1, nmax + 1):
        for sh in range(3 ** n):
            out.append({'VF_N': n, 'VF_ABS': 0, 'VF_SHAPE': sh})
            if sh % 3 == 0: out.append({'VF_N': n, 'VF_ABS': 1, 'VF_SHAPE': sh})
    return out

OBLIGATIONS = [
    dict(name='D1.escape-roundtrip', harness='C11/h_escape.cpp', entry='harness_escape', noinline=['lexWord'], expect_functions=['lexWord'], unwind=12,
         params_quick=[{'VF_N': n} for n in range(0, 4)], params_thorough=[{'VF_N': n} for n in range(0, 6)], unwind_thorough=16),
    dict(name='D2.records', harness='C11/h_records.cpp', entry='harness_records', tus=['lib/llvm/Support/StringRef.cpp'], noinline=['DependencyInfoParser5parseEv'], expect_functions=['DependencyInfoParser5parseEv'],
         unwind=12, params_quick=[{'VF_R': r, 'VF_L': l} for r in (1, 2) for l in (1, 2)]),
    dict(name='D3.handoff', harness='C11/h_handoff.cpp', entry='harness_handoff', models=['engine'],
         tus=['lib/BuildSystem/ShellCommand.cpp', 'lib/BuildSystem/ExternalCommand.cpp', 'lib/BuildSystem/BuildKey.cpp', 'lib/BuildSystem/BuildDescription.cpp', 'lib/Core/MakefileDepsParser.cpp'],
         stubs=['BuildSystem11getDelegateEv$=stub_getDelegate', '^_ZN7llbuild4core18MakefileDepsParser5parseEv$=stub_parse', 'TaskInterface20discoveredDependencyERKNS0_7KeyTypeE$=stub_discovered',
                '^_ZN4llvm3sys4path11is_absoluteERKNS_5TwineENS1_5StyleE$=stub_is_absolute', '^_ZN4llvm3sys4path6appendERNS_15SmallVectorImplIcEERKNS_5TwineES7_S7_S7_$=stub_path_append',
                '^_ZN4llvm3sys2fs13make_absoluteERNS_15SmallVectorImplIcEE$=stub_make_absolute'],
         noinline=['ShellCommand37processMakefileDiscoveredDependencies'], expect_functions=['ShellCommand37processMakefileDiscoveredDependencies'],
         stub_virtual=['ShellCommand(?!37)', 'ExternalCommand', '^_ZNK?7llbuild11buildsystem7Command(?!D)', 'JobDescriptor', 'MakefileDepsParser12ParseActions', 'DepsActions5errorE'], allow_external=['^_ZTV'], assert_external=['.'],
         unwind=8, params_quick=shapes(2), params_thorough=shapes(4), timeout=600, cbmc_flags=['--object-bits', '10'], cxxflags=['-include', '/verif/harness/C11/shim/pathmax.h']),
    dict(name='D4.deps-files-loop', harness='C11/h_depsloop.cpp', entry='harness_depsloop', models=['engine'],
         tus=['lib/BuildSystem/ShellCommand.cpp', 'lib/BuildSystem/ExternalCommand.cpp', 'lib/BuildSystem/BuildKey.cpp', 'lib/BuildSystem/BuildDescription.cpp', 'lib/Core/MakefileDepsParser.cpp'],
         stubs=['BuildSystem11getDelegateEv$=stub_getDelegate', 'BuildSystem13getFileSystemEv$=stub_getFileSystem', '^_ZN4llvm3sys4path11is_absoluteERKNS_5TwineENS1_5StyleE$=stub_is_absolute',
                'ShellCommand37processMakefileDiscoveredDependenciesE.*MemoryBufferEb$=stub_procMakefile', 'ShellCommand43processDependencyInfoDiscoveredDependenciesE.*MemoryBufferE$=stub_procDepInfo'],
         noinline=['ShellCommand29processDiscoveredDependencies'], expect_functions=['ShellCommand29processDiscoveredDependencies'],
         stub_virtual=['ShellCommand(?!29)', 'ExternalCommand', '^_ZNK?7llbuild11buildsystem7Command(?!D)', 'JobDescriptor', 'MakefileDepsParser12ParseActions', 'DepsActions'], noop_virtual=['HBufD[012]Ev$'],
         allow_external=['^_ZTV'], assert_external=['.'],
         unwind=8, params_quick=[{'VF_NP': n, 'VF_STYLE': st} for (n, st) in ((1, 1), (2, 1), (2, 2), (2, 3), (1, 0))], timeout=600, cbmc_flags=['--object-bits', '10'], cxxflags=['-include', '/verif/harness/C11/shim/pathmax.h']),
]
