PROPERTY = dict(
    level='model_checking',
    level_text='Reduced scope. Bounded model checking of the real dependency-file readers: (D1) every path of the stated length over the characters special to the Makefile format, written with the documented escaping, is recovered byte for byte by lexWord, which also stops exactly at the end of the escaped text (followed by a separator or by the end of the file); (D2) a well-framed dependency-info file delivers every record once, in order, under the right callback, operand byte for byte; malformed framing and truncated escapes are C19 (H2, H3). The hand-off from ShellCommand to the engine (absolute-path resolution, discoveredDependency, failing the command on a parser error) and the later re-execution (C01-O6/O2) are NOT decided by this check.',
    level_note='Trusted: clang-14 -O1 IR, ir2c (validated each run), CBMC+SAT. The writer used for D1 is the documented escaping, implemented in the harness.',
    bounds='paths 0..3 bytes (thorough 0..5) over {a, space, #, $, backslash, /, ., 0x80}; 1..2 records with operands of 1..2 non-NUL bytes',
    outside='ShellCommand::processDiscoveredDependencies (path resolution against the working directory, FFI getcwd); multi-rule dependency files (MakefileDepsParser::parse as a whole: C19-H2b, n <= 1); colons inside paths',
    stubs='none',
    assumptions=[],
)
OBLIGATIONS = [
    dict(name='D1.escape-roundtrip', harness='C11/h_escape.cpp', entry='harness_escape', noinline=['lexWord'], expect_functions=['lexWord'], unwind=12,
         params_quick=[{'VF_N': n} for n in range(0, 4)], params_thorough=[{'VF_N': n} for n in range(0, 6)], unwind_thorough=16),
    dict(name='D2.records', harness='C11/h_records.cpp', entry='harness_records', tus=['lib/llvm/Support/StringRef.cpp'], noinline=['DependencyInfoParser5parseEv'], expect_functions=['DependencyInfoParser5parseEv'],
         unwind=12, params_quick=[{'VF_R': r, 'VF_L': l} for r in (1, 2) for l in (1, 2)]),
]
