PROPERTY = dict(
    jobs=8,   # queries of 3-5 GB each: keep the total well under the machine's memory
    level='model_checking',
    level_text='Bounded model checking of the real encoders/decoders: scalar, string, FileInfo, signature codecs as bijections with a fixed little-endian layout (all field values), BuildKey makers/accessors/kind tags for names of the stated length (all bytes incl. NUL), and BuildValue encode-decode-encode for every payload shape (all 18 kinds, 1..2 output infos, 1..2 strings). Inside the bounds every value is covered by the solver.',
    level_note='Trusted: clang-14 -O1 IR, ir2c (validated each run), CBMC+SAT, real libstdc++ string/vector code, size-class model of operator new. The encoder is kept below its 256-byte inline buffer (growth is flagged as outside bound).',
    bounds='names/paths 0..3 bytes (thorough 0..4); custom-task data / filter strings 0..2 bytes; BuildValue with 1..2 output infos (all 80 bytes symbolic each) and 1..2 strings of 1..2 bytes',
    outside='more than 2 outputs/strings; encodings longer than 256 bytes; decoding of arbitrary (malformed) byte strings into BuildValue',
    stubs='none',
    assumptions=['StringList contract: member strings hold no NUL byte (asserted by the type in debug builds)'],
)
OBLIGATIONS = [
    dict(name='K1.fileinfo-encode', harness='C15/h_codec.cpp', entry='harness_codec', params_quick=[{'VF_CASE': 0}], unwind=34, copy_unwind=100, expect_functions=['harness_codec']),
    dict(name='K1.fileinfo-decode', harness='C15/h_codec.cpp', entry='harness_codec', params_quick=[{'VF_CASE': 1}], unwind=82, copy_unwind=100, expect_functions=['harness_codec']),
    dict(name='K1.scalars', harness='C15/h_codec.cpp', entry='harness_codec', params_quick=[{'VF_CASE': 2}], unwind=10, expect_functions=['harness_codec']),
    dict(name='K1.string', harness='C15/h_codec.cpp', entry='harness_codec', params_quick=[{'VF_CASE': 3, 'VF_N': n} for n in range(0, 4)],
         params_thorough=[{'VF_CASE': 3, 'VF_N': n} for n in range(0, 6)], unwind=10, expect_functions=['harness_codec']),
    dict(name='K4.simple-keys', harness='C15/h_key.cpp', entry='harness_key', params_quick=[{'VF_CASE': 0, 'VF_N': n} for n in range(0, 4)],
         params_thorough=[{'VF_CASE': 0, 'VF_N': n} for n in range(0, 5)], unwind=10, expect_functions=['harness_key']),
    dict(name='K4.custom-task', harness='C15/h_key.cpp', entry='harness_key', params_quick=[{'VF_CASE': 1, 'VF_N': n, 'VF_M': m} for n in range(0, 3) for m in range(0, 3)], unwind=10,
         expect_functions=['harness_key']),
    dict(name='K4.filtered', harness='C15/h_key.cpp', entry='harness_key', timeout=600, sat_solver='cadical', params_quick=[{'VF_CASE': 2, 'VF_N': n, 'VF_M': m} for n in range(0, 3) for m in range(0, 3)], unwind=10,
         expect_functions=['harness_key']),
    dict(name='K4.kind-tags', harness='C15/h_key.cpp', entry='harness_key', params_quick=[{'VF_CASE': 3, 'VF_N': 0}], unwind=10, expect_functions=['harness_key']),
    dict(name='K3.value', harness='C15/h_value.cpp', entry='harness_value', unwind='85*VF_N+20', copy_unwind='90*VF_N+40', expect_functions=['BuildValue6toData|harness_value'], timeout=900,
         params_quick=[{'VF_KIND': k} for k in range(18) if k not in (10, 17, 4, 7, 16)] + [{'VF_KIND': k, 'VF_N': n} for k in (10, 17) for n in (1, 2)]
                      + [{'VF_KIND': k, 'VF_NS': ns, 'VF_M': m} for k in (4, 7, 16) for ns in (1, 2) for m in (1, 2)]),
]
