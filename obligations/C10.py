from _bs_common import EXT, NOSIG
EXT = dict(EXT, stub_virtual=EXT['stub_virtual'] + NOSIG)
PROPERTY = dict(
    level='model_checking',
    level_text='Bounded model checking of the failure-propagation decision functions of the real ExternalCommand: (F1) getResultForOutput maps every failed / cancelled / upstream-failed command value to the failed-input node value (and each successful output to the information recorded at its own position); (F2) provideValue marks the command to be skipped exactly when some delivered input is a failed input, or a missing input while missing inputs are not allowed - for every sequence of two inputs of every value kind, in either order, so a later healthy input never clears the mark; (F4) isResultValid is false for every stored non-successful kind, so the next build re-attempts the command.  "No dependent runs" then follows by induction over the engine contract C01-O5; it is not established by running builds.',
    level_note='Trusted: clang-14 -O1 IR of ExternalCommand.cpp/BuildValue.h, ir2c (validated each run), CBMC+SAT, recording FileSystem. Not decided: the process-status switch in execute (needs the execution queue), other command kinds (mkdir, symlink, stale-file-removal, custom tools), the frontend exit status.',
    bounds='commands with 1..2 inputs/outputs; all value kinds; all FileInfo fields symbolic',
    outside='more than two inputs/outputs; ExternalCommand::execute; non-external command kinds; BuildSystemFrontend',
    stubs='BuildSystem::getFileSystem -> arbitrary FileSystem; TaskInterface not used',
    assumptions=[],
)
OBLIGATIONS = [
    dict(EXT, name='F1.resultForOutput', noinline=['ExternalCommand18getResultForOutput'], expect_functions=['ExternalCommand18getResultForOutput'], params_quick=[{'VF_CASE': 1, 'VF_K': k} for k in (1, 2)]),
    dict(EXT, name='F2.provideValue', noinline=['ExternalCommand12provideValue'], expect_functions=['ExternalCommand12provideValue'], params_quick=[{'VF_CASE': 2, 'VF_K': k} for k in (1, 2)]),
    dict(EXT, name='F4.isResultValid', noinline=['ExternalCommand13isResultValid'], expect_functions=['ExternalCommand13isResultValid'], params_quick=[{'VF_CASE': 0, 'VF_K': k} for k in (1, 2)]),
    dict(EXT, name='F5.execute-decision', noinline=['ExternalCommand7executeE', 'ExternalCommand17providePriorValue'], expect_functions=['ExternalCommand7executeE'],
         stub_virtual=[x for x in EXT['stub_virtual'] if not x.startswith('ExternalCommand(')] + ['ExternalCommand(5start|18configure|15configure)'],
         stubs=EXT['stubs'] + ['^_ZN4llvm3sys4path11parent_pathENS_9StringRefENS1_5StyleE$=stub_parent_path', 'BuildSystem11getDelegateEv$=stub_getDelegate'],
         assert_external=EXT['assert_external'] + ['report_fatal_error', 'BuildKey', 'QueueJob'], params_quick=[{'VF_CASE': 4, 'VF_K': k, 'VF_PK': pk} for k in (1, 2) for pk in (0, 1, 2, 3, 4, 5)]),
]
