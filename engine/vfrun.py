#!/usr/bin/env python3
"""Driver: build the encoding of each obligation from /repo's working tree,
run CBMC, replay counterexamples natively, validate the translator, write
evidence.  See DESIGN.md section 1.

  vfrun.py <PROPERTY> [--tier quick|thorough] [--only REGEX] [--jobs N] [--keep]
  vfrun.py <PROPERTY> --replay <path>
"""
import argparse, concurrent.futures as cf, hashlib, importlib.util, json, os, re, resource, shutil, signal, subprocess, sys, time

VERIF = os.path.dirname(os.path.dirname(os.path.abspath(__file__)))
REPO = os.environ.get('VF_REPO', '/repo')
ENGINE = os.path.join(VERIF, 'engine')
WORK = os.environ.get('VF_WORK', os.path.join(VERIF, '.work'))
CLANGXX = 'clang++-14'; CLANG = 'clang-14'; OPT = 'opt-14'; LLVM_LINK = 'llvm-link-14'

BASE_FLAGS = ['-std=c++14', '-fno-rtti', '-fno-exceptions', '-DNDEBUG', '-O1', '-Xclang', '-disable-llvm-passes',
              '-fno-vectorize', '-fno-slp-vectorize', '-fno-unroll-loops', '-fno-access-control',
              '-I' + REPO + '/include', '-I' + REPO + '/lib/llvm/Support', '-I' + os.path.join(VERIF, 'harness'),
              '-include', REPO + '/include/libstdc++14-workaround.h', '-w', '-D_GLIBCXX_EXTERN_TEMPLATE=0',
              '-DLLBUILD_VERIF=1']
CBMC_FLAGS = ['--unwinding-assertions', '--no-malloc-may-fail', '--slice-formula',
              '--max-field-sensitivity-array-size', '256', '--drop-unused-functions', '--trace', '--json-ui', '--verbosity', '8']

def log(msg):
    sys.stderr.write(msg + '\n'); sys.stderr.flush()

import threading, ctypes
TU_GUARD = threading.Lock(); TU_LOCKS = {}

class ToolError(Exception):
    pass

def run(cmd, cwd=None, timeout=None, mem_gb=None, env=None, stdout=None):
    def pre():
        os.setsid()
        # a killed driver must not leave solver processes behind (PR_SET_PDEATHSIG = 1)
        try: ctypes.CDLL(None).prctl(1, signal.SIGKILL)
        except Exception: pass
        if mem_gb:
            lim = int(mem_gb * (1 << 30))
            resource.setrlimit(resource.RLIMIT_AS, (lim, lim))
    t0 = time.time()
    p = subprocess.Popen(cmd, cwd=cwd, stdout=stdout or subprocess.PIPE, stderr=subprocess.PIPE, preexec_fn=pre, env=env)
    try:
        out, err = p.communicate(timeout=timeout)
        to = False
    except subprocess.TimeoutExpired:
        try: os.killpg(p.pid, signal.SIGKILL)
        except ProcessLookupError: pass
        out, err = p.communicate()
        to = True
    ru = resource.getrusage(resource.RUSAGE_CHILDREN)
    return dict(rc=p.returncode, out=(out or b'').decode('latin1'), err=(err or b'').decode('latin1'), timeout=to, wall=time.time() - t0)

def must(cmd, what, cwd=None, timeout=900):
    r = run(cmd, cwd=cwd, timeout=timeout)
    if r['rc'] != 0 or r['timeout']:
        errl = [l for l in (r['err'] or r['out']).split('\n') if 'error' in l or 'undefined' in l][:4]
        raise ToolError('%s failed (rc=%s%s): %s || %s' % (what, r['rc'], ', timeout' if r['timeout'] else '', ' | '.join(errl)[:700], ' '.join(cmd)[-300:]))
    return r

def sha(path):
    h = hashlib.sha256()
    with open(path, 'rb') as f: h.update(f.read())
    return h.hexdigest()[:16]

# ------------------------------------------------------------------ specs
def load_spec(prop):
    if os.path.join(VERIF, 'obligations') not in sys.path: sys.path.insert(0, os.path.join(VERIF, 'obligations'))
    path = os.path.join(VERIF, 'obligations', prop + '.py')
    if not os.path.exists(path):
        sys.exit('no obligations for ' + prop)
    sp = importlib.util.spec_from_file_location('obl_' + prop, path)
    mod = importlib.util.module_from_spec(sp); sp.loader.exec_module(mod)
    return mod

def load_known(prop):
    """known_findings.txt lines:
         known: property=C09 obligation=<name> exclude=<DEFINE> <what fails>
         fixed: property=C19 <commit> <what failed>
    Only 'known' lines influence a run; the file is never written here."""
    res = []
    p = os.path.join(VERIF, 'known_findings.txt')
    if os.path.exists(p):
        for ln in open(p):
            ln = ln.strip()
            m = re.match(r'known:\s+property=(\S+)\s+obligation=(\S+)\s+exclude=(\S+)\s+(.*)$', ln)
            if m and m.group(1) == prop:
                res.append(dict(obligation=m.group(2), define=m.group(3), what=m.group(4)))
    return res

WORK_SUFFIX = ''   # set in main(): separate work directories per tier / partial run, so that two runs of one property do not collide

class Query:
    def __init__(self, prop, ob, params, excludes=()):
        self.prop = prop; self.ob = ob; self.params = dict(params); self.excludes = tuple(excludes)
        tag = '_'.join('%s%s' % (k.replace('VF_', ''), v) for k, v in sorted(self.params.items()))
        self.qid = ob['name'] + ('-' + tag if tag else '') + ('-excl' if excludes else '')
        self.wd = os.path.join(WORK, prop + WORK_SUFFIX, re.sub(r'[^-A-Za-z0-9_.]', '_', self.qid))

# ------------------------------------------------------------------ build
def repo_path(p):
    return p if os.path.isabs(p) else os.path.join(REPO, p)

def build_c(q):
    """harness + repo TUs -> linked IR -> prep -> opt -> C.  Returns info dict."""
    ob = q.ob; wd = q.wd
    shutil.rmtree(wd, ignore_errors=True); os.makedirs(wd)
    harness = os.path.join(VERIF, 'harness', ob['harness'])
    defs = ['-D%s=%s' % (k, v) for k, v in sorted(q.params.items())] + ['-D%s=1' % d for d in q.excludes]
    flags = ['-I' + os.path.join(VERIF, 'harness', d) for d in ob.get('shim_includes', [])] + BASE_FLAGS + list(ob.get('cxxflags', [])) + defs
    must([CLANGXX] + flags + ['-S', '-emit-llvm', harness, '-o', 'h.ll'], 'clang++ harness', cwd=wd)
    lls = ['h.ll']
    tudir = os.path.join(WORK, q.prop + WORK_SUFFIX, '_tu'); os.makedirs(tudir, exist_ok=True)
    for tu in [os.path.join(ENGINE, 'support', 'libstdcxx_inst.cpp')] + list(ob.get('tus', [])):
        src = repo_path(tu)
        key = hashlib.sha256((src + ' '.join(BASE_FLAGS + list(ob.get('cxxflags', []))) + sha(src)).encode()).hexdigest()[:16]
        out = os.path.join(tudir, os.path.basename(src) + '.' + key + '.ll')
        with TU_GUARD:
            lk = TU_LOCKS.setdefault(out, threading.Lock())
        with lk:
            if not os.path.exists(out):
                tmp = out + '.tmp'
                must([CLANGXX] + BASE_FLAGS + list(ob.get('cxxflags', [])) + ['-S', '-emit-llvm', src, '-o', tmp], 'clang++ ' + tu, cwd=wd)
                os.replace(tmp, out)
        lls.append(out)
    if len(lls) > 1:
        must([LLVM_LINK, '-S'] + lls + ['-o', 'all.ll'], 'llvm-link', cwd=wd)
    else:
        shutil.copy(os.path.join(wd, 'h.ll'), os.path.join(wd, 'all.ll'))
    entry = ob['entry']
    stubs = list(ob.get('stubs', []))
    api = [entry, 'vf_virtual_stub', 'vf_virtual_noop'] + [s.rsplit('=', 1)[1] for s in stubs] + list(ob.get('keep', []))
    prep = ['python3', os.path.join(ENGINE, 'prep_ir.py'), 'all.ll', 'prep.ll']
    for n in ob.get('noinline', []): prep += ['--noinline', n]
    for s in stubs: prep += ['--stub', s]
    for k in ob.get('stub_virtual', []): prep += ['--stub-virtual', k]
    for k in ob.get('noop_virtual', []): prep += ['--noop-virtual', k]
    r = run(prep, cwd=wd, timeout=300)
    if r['rc'] != 0:
        raise ToolError('prep_ir: ' + r['err'][-800:])
    preplog = r['err']
    must([OPT, '-S', '-internalize', '-internalize-public-api-list=' + ','.join(api), '-globaldce', 'prep.ll', '-o', 'int.ll'], 'opt internalize', cwd=wd)
    must([OPT, '-S', '-O1', '-vectorize-loops=false', '-vectorize-slp=false'] + list(ob.get('opt_flags', [])) + ['int.ll', '-o', 'o1.ll'], 'opt -O1', cwd=wd)
    must([OPT, '-S', '-internalize', '-internalize-public-api-list=' + ','.join(api), '-globaldce', '-strip-debug', '-loop-simplify', 'o1.ll', '-o', 'min.ll'], 'opt finalize', cwd=wd)
    cmd = ['python3', os.path.join(ENGINE, 'ir2c.py'), 'min.ll', '-o', 'q.c', '--root', entry, '--ctors', '--stub-virtual-dtors', '--list', 'functions.txt']
    for m in ['cxx'] + list(ob.get('models', [])):
        cmd += ['--models', os.path.join(ENGINE, 'models', m + '.c')]
    for k in ob.get('keep', []): cmd += ['--root', k]
    for k in ob.get('allow_external', []): cmd += ['--define-external', k]
    for k in ob.get('assert_external', []): cmd += ['--assert-external', k]
    if ob.get('byte_copy') == 'loop': cmd += ['--byte-copy-loops']
    r = run(cmd, cwd=wd, timeout=600)
    if r['rc'] != 0:
        raise ToolError('ir2c: ' + r['err'][-1500:])
    fl = open(os.path.join(wd, 'functions.txt')).read().split('\n')
    funcs = [x for x in fl if x and not x.startswith('#')]
    ext = [x[len('#external '):].split() for x in fl if x.startswith('#external ')]
    ext = ext[0] if ext else []
    missing = [e for e in ext if e not in ('vf_observe', 'vf_str_disjunct') and not any(re.search(rx, e) for rx in ob.get('allow_external', []))]
    if missing:
        raise ToolError('externals without a model: ' + ' '.join(missing))
    for rx in ob.get('expect_functions', []):
        if not any(re.search(rx, f) for f in funcs):
            raise ToolError('function under test not found in the encoded module (refactored or inlined?): ' + rx)
    return dict(functions=funcs, externals=ext, prep=preplog)

# ------------------------------------------------------------------ cbmc
def parse_cbmc_json(text):
    try:
        data = json.loads(text)
    except Exception:
        # truncated output (killed): try to salvage nothing
        return None
    res = dict(results=[], messages=[], status=None)
    for e in data:
        if not isinstance(e, dict): continue
        if 'result' in e: res['results'] = e['result']
        if 'cProverStatus' in e: res['status'] = e['cProverStatus']
        if 'messageText' in e: res['messages'].append((e.get('messageType'), e['messageText']))
    return res

def nondet_values(trace):
    vals = []
    for s in trace or []:
        if s.get('stepType') != 'assignment' or s.get('hidden'): continue
        lhs = s.get('lhs', '')
        if lhs != 'vf_nd_value': continue
        m = re.match(r'vf_nd_(u8|u16|u32|u64|bool)$', (s.get('sourceLocation') or {}).get('function', ''))
        if not m: continue
        b = s.get('value', {}).get('binary')
        if b is None:
            d = str(s.get('value', {}).get('data', '0'))
            v = 1 if d.upper() == 'TRUE' else 0 if d.upper() == 'FALSE' else int(re.sub(r'[^0-9-]', '', d) or 0)
        else:
            v = int(b, 2)
        vals.append((m.group(1), v))
    return vals

def classify(r, ob):
    d = r.get('description', ''); pid = r.get('property', '')
    if d.startswith('VF-WITNESS'): return 'witness'
    if 'outside bound' in d or d.startswith('model:'): return 'outside'
    if 'unwinding assertion' in d or '.unwind.' in pid: return 'unwind'
    if 'recursion' in d and 'unwinding' in d: return 'unwind'
    if '.assertion.' in pid: return 'assertion'
    return 'memsafety'

def unwind_of(q):
    u = q.ob.get('unwind', 8)
    if isinstance(u, str):
        import collections
        env = collections.defaultdict(lambda: 1); env.update(q.params); u = eval(u, {}, env)
    return int(u)

def run_cbmc(q, extra=()):
    ob = q.ob
    flags = list(CBMC_FLAGS)
    if ob.get('field_sens') is not None: flags[flags.index('--max-field-sensitivity-array-size') + 1] = str(ob['field_sens'])
    cmd = ['cbmc', 'q.c', '--function', 'vf_main', '--unwind', str(unwind_of(q))] + flags + list(ob.get('cbmc_flags', [])) + list(extra)
    cu = ob.get('copy_unwind', 40)
    if isinstance(cu, str):
        import collections
        env = collections.defaultdict(lambda: 1); env.update(q.params); cu = eval(cu, {}, env)
    cu = str(cu)
    uws = ','.join('%s.%d:%s' % (f, i, cu) for f, k in (('vf_memcpy', 1), ('vf_memmove', 2)) for i in range(k))
    if ob.get('unwindset'): uws += ',' + ob['unwindset']
    if ob.get('unwind_loops'):
        # loops named by regex over CBMC's loop identifiers (function name + index), e.g. container growth loops
        sl = run(['cbmc', 'q.c', '--show-loops'], cwd=q.wd, timeout=120)['out']
        for nm in re.findall(r'^Loop (\S+):', sl, re.M):
            for rx, n in ob['unwind_loops']:
                if re.search(rx, nm): uws += ',%s:%d' % (nm, n); break
    cmd += ['--unwindset', uws]
    if ob.get('sat_solver'): cmd += ['--sat-solver', ob['sat_solver']]
    tier_to = ob.get('timeout', 600)
    if os.environ.get('VF_TIMEOUT_CAP'): tier_to = min(tier_to, int(os.environ['VF_TIMEOUT_CAP']))
    open(os.path.join(q.wd, 'cbmc.cmd'), 'w').write(' '.join(cmd) + '\n')
    # Solver portfolio: SAT time is not a stable function of the query (an unused helper added to the prelude moved one
    # query from 3 s to over 100 s with MiniSat while CaDiCaL needed 12 s).  When the default back end has not answered
    # after 30..90 s, the same query is also given to CaDiCaL; the first verdict wins.
    def pre():
        os.setsid()
        try: ctypes.CDLL(None).prctl(1, signal.SIGKILL)
        except Exception: pass
        lim = int(ob.get('mem_gb', 16) * (1 << 30)); resource.setrlimit(resource.RLIMIT_AS, (lim, lim))
    t0 = time.time(); procs = []
    def start(c, out):
        fo = open(os.path.join(q.wd, out), 'wb')
        procs.append((subprocess.Popen(c, cwd=q.wd, stdout=fo, stderr=open(os.path.join(q.wd, out + '.err'), 'wb'), preexec_fn=pre), out, c, fo))
    start(cmd, 'cbmc.json')
    second_at = None if (ob.get('sat_solver') or ob.get('portfolio') is False or any('sat-solver' in x for x in cmd)) else (0 if ob.get('portfolio') == 'eager' else max(30, min(90, tier_to // 8)))
    winner = None
    while time.time() - t0 < tier_to and winner is None and procs:
        for pr in list(procs):
            if pr[0].poll() is not None:
                txt = open(os.path.join(q.wd, pr[1]), 'rb').read().decode('latin1')
                pp = parse_cbmc_json(txt)
                if (pp is not None and pp['status'] is not None) or len(procs) == 1: winner = pr; break
                procs.remove(pr)                                   # this back end gave up (out of memory ...): wait for the other
        if winner: break
        if second_at is not None and time.time() - t0 >= second_at:
            second_at = None; start(cmd + ['--sat-solver', 'cadical'], 'cbmc.cadical.json')
        time.sleep(0.2)
    for pr in procs:
        if pr is not winner and pr[0].poll() is None:
            try: os.killpg(pr[0].pid, signal.SIGKILL)
            except ProcessLookupError: pass
        pr[0].wait(); pr[3].close()
    wall = time.time() - t0
    if winner is None:
        return dict(verdict='timeout', wall=wall, cmd=cmd, portfolio=len(procs) > 1)
    cmd = winner[2]
    if winner[1] != 'cbmc.json': os.replace(os.path.join(q.wd, winner[1]), os.path.join(q.wd, 'cbmc.json'))
    r = dict(rc=winner[0].returncode, wall=wall, err=open(os.path.join(q.wd, winner[1] + '.err'), 'rb').read().decode('latin1'))
    text = open(os.path.join(q.wd, 'cbmc.json'), 'rb').read().decode('latin1')
    p = parse_cbmc_json(text)
    if p is None or p['status'] is None:
        errs = re.findall(r'"messageText":\s*"([^"]*)"', text)[-6:]
        return dict(verdict='error', wall=r['wall'], cmd=cmd, detail=('rc=%s ' % r['rc']) + ' | '.join(errs)[-800:] + r['err'][-400:])
    info = dict(verdict='done', wall=r['wall'], cmd=cmd, results=p['results'])
    msgs = '\n'.join(t for _, t in p['messages'])
    m = re.search(r'Generated (\d+) VCC\(s\), (\d+) remaining', msgs); info['vccs'] = (int(m.group(1)), int(m.group(2))) if m else None
    m = re.search(r'(\d+) variables, (\d+) clauses', msgs); info['sat'] = (int(m.group(1)), int(m.group(2))) if m else None
    m = re.search(r'size of program expression: (\d+) steps', msgs); info['steps'] = int(m.group(1)) if m else None
    info['solver_s'] = round(sum(float(x) for x in re.findall(r'Runtime Solver: ([0-9.e+-]+)s', msgs)), 3)
    info['symex_s'] = round(sum(float(x) for x in re.findall(r'Runtime Symex: ([0-9.e+-]+)s', msgs)), 3)
    return info

# ------------------------------------------------------------------ native builds
def native_exe(q, asan=False):
    name = 'native_asan' if asan else 'native'
    exe = os.path.join(q.wd, name)
    if os.path.exists(exe): return exe
    src = os.path.join(q.wd, 'min.ll')
    if asan:
        txt = open(src).read().split('\n')
        for i, ln in enumerate(txt):
            if ln.startswith('define ') and ln.rstrip().endswith('{'):
                # attributes go right after the parameter list
                at = ln.index('@'); p = ln.index('(', at); depth = 0; k = p
                while True:
                    if ln[k] == '(': depth += 1
                    elif ln[k] == ')':
                        depth -= 1
                        if depth == 0: break
                    k += 1
                mm = re.match(r'(\s+(?:local_)?unnamed_addr)?', ln[k + 1:])
                k2 = k + 1 + mm.end()
                txt[i] = ln[:k2] + ' sanitize_address' + ln[k2:]
        src = os.path.join(q.wd, 'min.asan.ll'); open(src, 'w').write('\n'.join(txt))
    san = ['-fsanitize=address'] if asan else []
    objs = []
    must([CLANGXX, '-O1', '-w', '-c', '-x', 'ir', src, '-o', name + '.mod.o'] + san, 'native build (module)', cwd=q.wd); objs.append(name + '.mod.o')
    must([CLANG, '-O1', '-w', '-c', '-DVF_ENTRY=' + q.ob['entry'], os.path.join(ENGINE, 'replay_rt.c'), '-o', name + '.rt.o'], 'native build (runtime)', cwd=q.wd); objs.append(name + '.rt.o')
    # allowed external data symbols (base-class vtables that are only ever stored) get a zeroed definition
    fl = open(os.path.join(q.wd, 'functions.txt')).read().split('\n')
    extl = [x[len('#external '):].split() for x in fl if x.startswith('#external ')]
    extn = [e for e in (extl[0] if extl else []) if any(re.search(rx, e) for rx in q.ob.get('allow_external', []))]
    if extn:
        with open(os.path.join(q.wd, 'native_ext.c'), 'w') as f:
            for e in extn:
                if e.startswith('_ZSt') or e.startswith('__libc'): continue     # provided by libstdc++ / libc (some are thread-local)
                f.write('char %s[512];\n' % e)
        must([CLANG, '-O0', '-w', '-c', 'native_ext.c', '-o', name + '.ext.o'], 'native build (externals)', cwd=q.wd); objs.append(name + '.ext.o')
    und = run(['nm', '-u', name + '.mod.o'], cwd=q.wd)['out']
    ntus = list(q.ob.get('native_tus', []))
    if 'grow_pod' in und and not any('SmallVector.cpp' in t for t in ntus): ntus.append('lib/llvm/Support/SmallVector.cpp')
    if ntus or 'report_bad_alloc_error' in und or 'report_fatal_error' in und: ntus.append(os.path.join(ENGINE, 'native_support.cpp'))
    for i, t in enumerate(ntus):
        o = '%s.tu%d.o' % (name, i)
        must([CLANGXX, '-O1', '-w', '-c', '-std=c++14', '-fno-rtti', '-fno-exceptions', '-DNDEBUG', '-I' + REPO + '/include', '-I' + REPO + '/lib/llvm/Support',
              '-include', REPO + '/include/libstdc++14-workaround.h', repo_path(t), '-o', o], 'native build (' + t + ')', cwd=q.wd)
        objs.append(o)
    cmd = [CLANGXX] + san + objs + list(q.ob.get('native_libs', [])) + ['-lpthread', '-Wl,--no-demangle', '-o', exe]
    r = run(cmd, cwd=q.wd, timeout=600)
    if r['rc'] != 0 and q.ob.get('assert_external'):
        # functions the obligation declares unreachable (assert_external) have an asserting body in the encoding;
        # the native build gets the same: a body that reports the unexpected call
        syms = sorted(set(re.findall(r"undefined reference to `([A-Za-z_][A-Za-z0-9_]*)'", r['err'])))
        syms = [x for x in syms if any(re.search(rx, x) for rx in q.ob['assert_external'])]
        if syms:
            with open(os.path.join(q.wd, name + '_unexp.c'), 'w') as f:
                f.write('#include <stdio.h>\n#include <stdlib.h>\n')
                for x in syms: f.write('void %s(void) { printf("VF-ASSERT-FAIL: harness: unexpected call of %s\\n"); fflush(stdout); _Exit(1); }\n' % (x, x[:80]))
            must([CLANG, '-O0', '-w', '-c', name + '_unexp.c', '-o', name + '.unexp.o'], 'native build (unexpected-call bodies)', cwd=q.wd)
            cmd = cmd[:-2] + [name + '.unexp.o'] + cmd[-2:]
    if r['rc'] != 0: must(cmd, 'native build', cwd=q.wd)
    return exe

def c_exe(q):
    exe = os.path.join(q.wd, 'cexe')
    if os.path.exists(exe): return exe
    must(['gcc', '-O0', '-w', '-fwrapv', '-fno-strict-aliasing', '-DVF_ENTRY=vf_main', '-include', os.path.join(ENGINE, 'cprover_native.h'), 'q.c',
          os.path.join(ENGINE, 'replay_rt.c'), '-o', exe], 'gcc build of generated C', cwd=q.wd)
    return exe

def write_values(path, vals):
    with open(path, 'w') as f:
        for _, v in vals: f.write('%x\n' % v)

def run_native(exe, valfile=None, seed=None, timeout=20, poison=None):
    env = dict(os.environ)
    if poison is not None:
        env['VF_POISON'] = '%x' % poison; env['MALLOC_PERTURB_'] = str(poison ^ 0xff)
    env.pop('VF_REPLAY', None)
    if valfile: env['VF_REPLAY'] = valfile
    if seed is not None: env['VF_SEED'] = str(seed)
    env['ASAN_OPTIONS'] = 'detect_leaks=0:abort_on_error=0:exitcode=99'
    r = run([exe], timeout=timeout, env=env)
    return r

def sanitize_msg(msg):
    return re.sub(r'[^-A-Za-z0-9 _.,:;()<>=+*/\[\]]', '?', msg)

def confirm(q, res, vals):
    """replay a CBMC counterexample against the native build of the same IR."""
    kind = classify(res, q.ob)
    valfile = os.path.join(q.wd, 'cex_%s.vals' % re.sub(r'\W', '_', res['property']))
    write_values(valfile, vals)
    out = dict(kind=kind, confirmed=False, detail='')
    if kind == 'assertion':
        # uninitialised stack/heap bytes have arbitrary values in CBMC; natively they are whatever
        # happens to be there, so the replay is tried with several fill patterns
        for poison in (None, 0xA5, 0x00, 0xFF, 0x5A):
            r = run_native(native_exe(q), valfile, poison=poison)
            m = re.search(r'VF-ASSERT-FAIL: (.*)', r['out'])
            if m: break
        if m and (sanitize_msg(m.group(1).strip()) == sanitize_msg(res['description'].strip())
                  or sanitize_msg(m.group(1).strip()) in getattr(q, 'failed_descs', ())):
            # the native run stops at the first failing assertion; any assertion CBMC also reports as failing counts
            out['confirmed'] = True
        out['detail'] = 'native rc=%s: %s' % (r['rc'], (r['out'].strip().split('\n') or [''])[-1][:200])
        if not out['confirmed']:
            # the same input may fail natively through the memory-safety route first
            r2 = run_native(native_exe(q, asan=True), valfile)
            if 'AddressSanitizer' in r2['err']:
                out['detail'] += ' | asan: ' + (re.findall(r'ERROR: AddressSanitizer: [^\n]*', r2['err']) or [''])[0][:160]
    else:
        r = run_native(native_exe(q, asan=True), valfile)
        if 'ERROR: AddressSanitizer' in r['err']:
            out['confirmed'] = True
            out['detail'] = (re.findall(r'ERROR: AddressSanitizer: [^\n]*', r['err']) or [''])[0][:200]
        elif r['timeout'] and kind == 'unwind':
            out['confirmed'] = True; out['detail'] = 'native run did not terminate within 20 s'
        elif r['rc'] is not None and r['rc'] < 0:
            out['confirmed'] = True; out['detail'] = 'native run killed by signal %d' % -r['rc']
        else:
            out['detail'] = 'native asan rc=%s: %s' % (r['rc'], (r['out'].strip().split('\n') or [''])[-1][:200])
    return out

def validate_translation(q, witness_vals, nrandom, seed):
    """generated C (gcc) vs native IR on identical nondet streams."""
    n = 0; mism = []
    ne = native_exe(q); ce = c_exe(q)
    streams = []
    if witness_vals is not None:
        vf = os.path.join(q.wd, 'witness.vals'); write_values(vf, witness_vals); streams.append(('witness', vf, None))
    for i in range(nrandom): streams.append(('rand%d' % i, None, seed * 1000 + i))
    reached = 0
    for name, vf, sd in streams:
        a = run_native(ne, vf, sd); b = run_native(ce, vf, sd)
        n += 1
        if a['rc'] == 0: reached += 1
        if (a['rc'], a['out']) != (b['rc'], b['out']):
            mism.append('%s: native rc=%s %r / C rc=%s %r' % (name, a['rc'], a['out'][-120:], b['rc'], b['out'][-120:]))
    return n, reached, mism

# ------------------------------------------------------------------ one query
def do_query(q, tier, seed, validate=True):
    t0 = time.time()
    rec = dict(qid=q.qid, obligation=q.ob['name'], params=q.params, excludes=list(q.excludes), harness=q.ob['harness'], entry=q.ob['entry'],
               unwind=unwind_of(q), status='inconclusive', reason='', violations=[], witness=False)
    try:
        b = build_c(q)
        rec['functions_encoded'] = len(b['functions'])
        rec['functions_under_test'] = sorted(set(f for f in b['functions'] for rx in q.ob.get('expect_functions', []) if re.search(rx, f)))[:12]
        rec['stubs'] = [ln.split('prep_ir: ')[1] for ln in b['prep'].split('\n') if 'prep_ir: stub' in ln]
        rec['models_called'] = b['externals']
        c = run_cbmc(q)
        if c['verdict'] == 'timeout' and not q.ob.get('sat_solver') and not c.get('portfolio'):
            # SAT run times vary; one retry with a different solver before giving up
            rec['retried_with'] = 'cadical'
            c = run_cbmc(q, extra=['--sat-solver', 'cadical'])
        rec['cbmc_wall_s'] = round(c['wall'], 2)
        if 'cadical' in ' '.join(c.get('cmd', [])): rec['sat_backend'] = 'cadical'
        if c['verdict'] == 'timeout':
            rec['reason'] = 'cbmc timeout after %ds (no verdict)' % q.ob.get('timeout', 600); return rec
        if c['verdict'] == 'error':
            rec['reason'] = 'cbmc error: ' + c.get('detail', '')[:600]; return rec
        rec.update(vccs=c['vccs'], sat=c['sat'], steps=c['steps'], solver_s=c['solver_s'], symex_s=c['symex_s'])
        results = c['results']
        rec['properties_checked'] = len(results)
        fails = [r for r in results if r.get('status') not in ('SUCCESS',) and not (r.get('description') or '').startswith('VF-KEEP')]
        if any(r.get('status') == 'ERROR' for r in results):
            rec['reason'] = 'solver error (out of memory or internal error): no verdict'; return rec
        wit = [r for r in results if classify(r, q.ob) == 'witness']
        wvals = None
        if not wit:
            rec['reason'] = 'harness has no VF-WITNESS assertion'; return rec
        unwind_deferred = None
        for r in fails:
            k = classify(r, q.ob)
            if k == 'outside' and r.get('status') == 'FAILURE':
                rec['reason'] = 'bound exceeded: ' + r.get('description', '')[:200]; return rec
            if k == 'unwind' and r.get('status') == 'FAILURE' and not q.ob.get('unwind_is_oracle'):
                # a loop that runs off the end of a buffer also exhausts its bound: if a memory-safety failure is reported
                # as well, that one is tried first (confirmed natively = violation); otherwise the bound is too small
                if any(x.get('status') == 'FAILURE' and classify(x, q.ob) == 'memsafety' for x in fails): unwind_deferred = r; continue
                rec['reason'] = 'unwinding bound too small: ' + r.get('property', ''); return rec
        has_failure = any(r.get('status') == 'FAILURE' and (classify(r, q.ob) in ('assertion', 'memsafety') or (classify(r, q.ob) == 'unwind' and q.ob.get('unwind_is_oracle'))) for r in fails)
        if all(w.get('status') == 'FAILURE' for w in wit):
            rec['witness'] = True
            wvals = nondet_values(wit[0].get('trace'))
        elif not has_failure:
            # (a failing assertion that ends every path also makes the witness unreachable: then the failure is what counts)
            rec['reason'] = 'witness not reachable: the obligation is vacuous'; return rec
        cands = []; unknown = []
        for r in fails:
            k = classify(r, q.ob)
            if k == 'witness': continue
            if r.get('status') != 'FAILURE':
                unknown.append(r); continue
            if k == 'outside':
                rec['reason'] = 'bound exceeded: ' + r.get('description', '')[:200]; return rec
            if k == 'unwind' and not q.ob.get('unwind_is_oracle'):
                if unwind_deferred is not None: continue
                rec['reason'] = 'unwinding bound too small: ' + r.get('property', ''); return rec
            cands.append(r)
        if unknown and not cands:
            # UNKNOWN without any failure: CBMC did not decide the property
            rec['reason'] = 'property %s has status %s' % (unknown[0].get('property'), unknown[0].get('status')); return rec
        q.failed_descs = set(sanitize_msg((r.get('description') or '').strip()) for r in cands)
        cands.sort(key=lambda r: 0 if classify(r, q.ob) != 'assertion' else 1)
        mem_confirmed = False
        for r in cands:
            vals = nondet_values(r.get('trace'))
            cf_ = confirm(q, r, vals)
            if cf_['kind'] != 'assertion' and cf_['confirmed']: mem_confirmed = True
            if cf_['kind'] == 'assertion' and not cf_['confirmed'] and mem_confirmed and 'asan:' in cf_['detail']:
                # downstream effect of the memory-safety violation already confirmed natively
                rec.setdefault('downstream', []).append(r.get('description')); continue
            v = dict(property=r['property'], description=r.get('description'), kind=cf_['kind'], confirmed=cf_['confirmed'], detail=cf_['detail'],
                     values=[[t, x] for t, x in vals][:400], location=(r.get('sourceLocation') or {}).get('function'))
            rec['violations'].append(v)
        if unwind_deferred is not None and not mem_confirmed:
            rec['violations'] = []; rec['reason'] = 'unwinding bound too small: ' + unwind_deferred.get('property', ''); return rec
        if validate and q.ob.get('validate', True):
            n, reached, mism = validate_translation(q, wvals, 6 if tier == 'quick' else 24, seed)
            rec['translation_runs'] = n; rec['translation_reached_end'] = reached
            if mism:
                rec['reason'] = 'translator validation mismatch: ' + mism[0][:400]; rec['status'] = 'inconclusive'; return rec
        if not rec['violations']:
            rec['status'] = 'proved'
        elif all(v['confirmed'] for v in rec['violations']):
            rec['status'] = 'violated'
        else:
            rec['status'] = 'inconclusive'
            u = [v for v in rec['violations'] if not v['confirmed']][0]
            rec['reason'] = 'counterexample for "%s" did not reproduce natively (%s): encoding or model suspect' % (u['description'], u['detail'])
        return rec
    except ToolError as e:
        rec['reason'] = str(e)[:1500]
        return rec
    finally:
        rec['wall_s'] = round(time.time() - t0, 2)
        if rec.get('status') == 'proved' and not os.environ.get('VF_KEEP_WORK'):
            # a proved query keeps its generated C and the solver's answer; the bulky intermediates (IR, native builds) go
            for f in os.listdir(q.wd):
                if f.endswith('.ll') or f.endswith('.o') or f in ('native', 'native_asan', 'cexe') or f.endswith('.vals'):
                    try: os.remove(os.path.join(q.wd, f))
                    except OSError: pass

# ------------------------------------------------------------------ main
def expand(prop, spec, tier, only):
    qs = []
    obs = list(spec.OBLIGATIONS) + (list(getattr(spec, 'DISABLED', [])) if only and os.environ.get('VF_DISABLED') else [])   # (experiments on obligations that are not part of the check)
    for ob in obs:
        if only and not re.search(only, ob['name']): continue
        if tier == 'quick' and ob.get('thorough_only'): continue
        ps = ob.get('params_' + tier) or ob.get('params_quick') or [{}]
        o2 = dict(ob)
        for k in list(ob):
            if k.endswith('_' + tier) and k != 'params_' + tier: o2[k[:-len(tier) - 1]] = ob[k]
        for p in ps: qs.append(Query(prop, o2, p))
    return qs

def save_replay(prop, q, v):
    d = os.path.join(VERIF, 'replays', prop); os.makedirs(d, exist_ok=True)
    path = os.path.join(d, re.sub(r'[^-A-Za-z0-9_.]', '_', q.qid) + '.json')
    json.dump(dict(property=prop, obligation=q.ob['name'], params=q.params, excludes=list(q.excludes), failed=v['property'], description=v['description'],
                   kind=v['kind'], values=v['values'], detail=v['detail']), open(path, 'w'), indent=1)
    return path

def main():
    ap = argparse.ArgumentParser()
    ap.add_argument('prop'); ap.add_argument('--tier', default=os.environ.get('VERIF_TIER', 'quick'), choices=['quick', 'thorough'])
    ap.add_argument('--only'); ap.add_argument('--jobs', type=int, default=int(os.environ.get('VF_JOBS', '12')))
    ap.add_argument('--replay'); ap.add_argument('--no-validate', action='store_true'); ap.add_argument('--no-evidence', action='store_true')
    a = ap.parse_args()
    sys.path.insert(0, ENGINE)
    prop = a.prop
    spec = load_spec(prop)
    seed = int(os.environ.get('VERIF_SEED', '0') or 0)
    if 'VF_JOBS' not in os.environ and spec.PROPERTY.get('jobs'): a.jobs = int(spec.PROPERTY['jobs'])   # memory-hungry queries: fewer in parallel
    global WORK_SUFFIX
    WORK_SUFFIX = ('.thorough' if a.tier == 'thorough' else '') + ('.only' if a.only else '')
    if a.replay:
        return do_replay(prop, spec, a.replay)
    t0 = time.time()
    known = load_known(prop)
    qs = expand(prop, spec, a.tier, a.only)
    if not qs: sys.exit('no queries selected')
    # one run per work directory at a time: a second one waits for the first instead of sharing its files
    import fcntl
    os.makedirs(WORK, exist_ok=True)
    lockf = open(os.path.join(WORK, '.lock.' + prop + WORK_SUFFIX), 'w'); fcntl.flock(lockf, fcntl.LOCK_EX)
    shutil.rmtree(os.path.join(WORK, prop + WORK_SUFFIX), ignore_errors=True)
    if not a.only: shutil.rmtree(os.path.join(VERIF, 'replays', prop), ignore_errors=True)
    recs = []
    def worker(q): return q, do_query(q, a.tier, seed, validate=not a.no_validate)
    violations = []; inconclusive = []; known_lines = []
    with cf.ThreadPoolExecutor(max_workers=a.jobs) as ex:
        futs = [ex.submit(worker, q) for q in qs]
        second = []
        for f in cf.as_completed(futs):
            q, rec = f.result(); recs.append(rec)
            log('[%s] %-40s %-12s %6.1fs %s' % (prop, q.qid, rec['status'], rec['wall_s'], rec['reason'][:300]))
            if rec['status'] == 'violated':
                ks = [k for k in known if k['obligation'] == q.ob['name']]
                if ks:
                    for k in ks:
                        ln = 'KNOWN-FINDING: property=%s %s' % (prop, k['what'])
                        if ln not in known_lines: known_lines.append(ln)
                    q2 = Query(prop, q.ob, q.params, excludes=[k['define'] for k in ks])
                    second.append(ex.submit(worker, q2))
                    rec['known_finding'] = [k['what'] for k in ks]
                else:
                    violations.append((q, rec))
            elif rec['status'] != 'proved':
                inconclusive.append((q, rec))
        for f in cf.as_completed(second):
            q, rec = f.result(); recs.append(rec)
            log('[%s] %-40s %-12s %6.1fs %s' % (prop, q.qid, rec['status'], rec['wall_s'], rec['reason'][:300]))
            if rec['status'] == 'violated': violations.append((q, rec))
            elif rec['status'] != 'proved': inconclusive.append((q, rec))
    for ln in known_lines: print(ln)
    vio_paths = []
    for q, rec in violations:
        v = rec['violations'][0]
        path = save_replay(prop, q, v)
        vio_paths.append(path)
        print('VIOLATION property=%s replay=%s' % (prop, path))
        print('  obligation=%s failed="%s" (%s) %s' % (q.qid, v['description'], v['kind'], v['detail']))
    for q, rec in inconclusive:
        print('INCONCLUSIVE property=%s obligation=%s reason=%s' % (prop, q.qid, rec['reason'][:400].replace('\n', ' ')))
    wall = time.time() - t0
    if not a.no_evidence and not a.only:
        write_evidence(prop, spec, a.tier, seed, recs, wall, len(violations), known_lines)
    proved = sum(1 for r in recs if r['status'] == 'proved')
    print('%s tier=%s: %d queries, %d proved, %d violated (new), %d known, %d inconclusive, %.0fs'
          % (prop, a.tier, len(recs), proved, len(violations), sum(1 for r in recs if r.get('known_finding')), len(inconclusive), wall))
    sys.stdout.flush()
    if violations: return 1
    if inconclusive: return 2
    return 0

def write_evidence(prop, spec, tier, seed, recs, wall, nviol, known_lines):
    P = spec.PROPERTY
    done = [r for r in recs if r['status'] in ('proved', 'violated')]
    samples = []
    for r in sorted(recs, key=lambda r: r['qid'])[:60]:
        samples.append({k: r.get(k) for k in ('qid', 'obligation', 'params', 'harness', 'entry', 'unwind', 'status', 'reason', 'functions_under_test', 'functions_encoded',
                                               'stubs', 'vccs', 'sat', 'steps', 'solver_s', 'symex_s', 'cbmc_wall_s', 'wall_s', 'properties_checked', 'translation_runs',
                                               'translation_reached_end', 'known_finding') if r.get(k) not in (None, [], '')})
    obl_names = sorted(set(r['obligation'] for r in recs))
    ev = dict(property_id=prop, tier=tier, seed=seed, level=P.get('level', 'model_checking'),
              coverage=dict(
                  evaluations=len([r for r in recs if r.get('cbmc_wall_s') is not None]),
                  distinct_nontrivial=len(set(r['qid'] for r in done if r['witness'])),
                  rule='one evaluation = one CBMC query (one obligation at one concrete size/parameter point; every other input symbolic). '
                       'A query counts as non-trivial only if its reachability witness (an assert(false) at the end of the harness) was reported violated, '
                       'i.e. the assumptions are satisfiable and the assertions are reached; distinct = distinct (obligation, parameter) pairs.',
                  samples=samples,
                  obligations=len(recs), discharged=len([r for r in recs if r['status'] == 'proved']),
                  obligation_names=obl_names,
                  traces_validated_against_impl=sum(r.get('translation_runs', 0) for r in recs),
                  solver_seconds=round(sum(r.get('solver_s') or 0 for r in recs), 2),
                  cbmc_wall_seconds=round(sum(r.get('cbmc_wall_s') or 0 for r in recs), 2),
                  properties_checked=sum(r.get('properties_checked') or 0 for r in recs),
                  bounds=P.get('bounds', ''), outside_bound=P.get('outside', ''),
                  stubs=P.get('stubs', ''), known_findings=known_lines,
                  checker_cmd='cbmc q.c --function <entry> --unwind <N> ' + ' '.join(CBMC_FLAGS) + ' [--unwindset ..] [--sat-solver cadical: per obligation, or as the second back end of the portfolio when MiniSat has no verdict after 30-90 s; samples[].sat_backend names the one that answered]',
                  explanation=P.get('explanation', ''),
                  exhaustive=False),
              assumptions=P.get('assumptions', []), wall_s=round(wall, 1), violations=nviol)
    os.makedirs(os.path.join(VERIF, 'evidence'), exist_ok=True)
    json.dump(ev, open(os.path.join(VERIF, 'evidence', prop + '.json'), 'w'), indent=1)

def do_replay(prop, spec, path):
    rp = json.load(open(path))
    ob = [o for o in spec.OBLIGATIONS if o['name'] == rp['obligation']]
    if not ob: sys.exit('unknown obligation ' + rp['obligation'])
    q = Query(prop, ob[0], rp['params'], rp.get('excludes', []))
    q.wd = q.wd + '-replay'
    build_c(q)
    res = dict(property=rp['failed'], description=rp['description'])
    c = confirm(q, res, [(t, v) for t, v in rp['values']])
    print('replay %s: %s (%s)' % (path, 'REPRODUCED' if c['confirmed'] else 'not reproduced', c['detail']))
    if c['confirmed']:
        print('VIOLATION property=%s replay=%s' % (prop, path)); return 1
    return 0

if __name__ == '__main__':
    sys.exit(main())
