/* Native runtime for replay and translator validation.
 *
 * nondet_* read the values recorded from a CBMC trace (file named by
 * VF_REPLAY, one "<hex value>" per line, in call order).  When the recorded
 * stream is exhausted, or when VF_REPLAY is unset, values come from a
 * deterministic pseudo-random generator seeded by VF_SEED and biased towards
 * small / boundary values so that harness assumptions are met reasonably often.
 *
 * Exit codes: 0 end of harness (or witness reached), 1 assertion failed,
 * 77 an assumption was false (path outside the obligation's precondition).
 */
#include <stdint.h>
#include <stdio.h>
#include <stdlib.h>
#include <string.h>

static FILE* vf_in; static int vf_init_done; static uint64_t vf_rng = 88172645463325252ull;
static int vf_quiet;
static void vf_init(void) {
  if (vf_init_done) return;
  vf_init_done = 1;
  const char* p = getenv("VF_REPLAY");
  if (p && *p) vf_in = fopen(p, "r");
  const char* s = getenv("VF_SEED");
  if (s) vf_rng ^= (uint64_t)strtoull(s, 0, 10) * 0x9E3779B97F4A7C15ull + 1;
  vf_quiet = getenv("VF_QUIET") != 0;
}
static uint64_t vf_rand(void) { vf_rng ^= vf_rng << 13; vf_rng ^= vf_rng >> 7; vf_rng ^= vf_rng << 17; return vf_rng; }
static uint64_t vf_next(unsigned bits) {
  vf_init();
  if (vf_in) {
    char line[64];
    if (fgets(line, sizeof line, vf_in)) return strtoull(line, 0, 16);
    fclose(vf_in); vf_in = 0;
  }
  uint64_t r = vf_rand();
  switch (r & 7) {
  case 0: return 0;
  case 1: return 1;
  case 2: return (vf_rand() & 3);
  case 3: { static const unsigned char pool[] = { '/', 'a', 'b', ' ', '\\', '$', '\n', ':', '#', 0xff, 0x80, '{', '}', '\'', '_', '.', '|', '=', 'A', 'c' };
            return pool[vf_rand() % sizeof pool]; }
  case 4: return vf_rand() & 0xff;
  case 5: return bits >= 64 ? ~0ull : ((1ull << bits) - 1);
  default: return vf_rand();
  }
}
uint8_t nondet_u8(void) { return (uint8_t)vf_next(8); }
uint16_t nondet_u16(void) { return (uint16_t)vf_next(16); }
uint32_t nondet_u32(void) { return (uint32_t)vf_next(32); }
uint64_t nondet_u64(void) { return vf_next(64); }
_Bool nondet_bool(void) { return (_Bool)(vf_next(1) & 1); }
void vf_observe(uint64_t x) { vf_init(); printf("OBS %llx\n", (unsigned long long)x); }
void __CPROVER_assume(_Bool c) {
  if (!c) { vf_init(); printf("VF-ASSUME-FALSE\n"); fflush(stdout); _Exit(77); }
}
void __CPROVER_assert(_Bool c, const char* msg) {
  if (c) return;
  vf_init();
  if (msg && strncmp(msg, "VF-WITNESS end", 14) == 0) { printf("VF-WITNESS-REACHED\n"); fflush(stdout); _Exit(0); }
  if (msg && strncmp(msg, "VF-WITNESS", 10) == 0) return;       /* a secondary reachability witness: an assertion after it may be the one being replayed */
  printf("VF-ASSERT-FAIL: %s\n", msg ? msg : "?"); fflush(stdout); _Exit(1);
}
_Bool vf_str_disjunct(void* self, void* s) {   /* std::string::_M_disjunct, see ir2c.py */
  uintptr_t d = *(const uintptr_t*)self, n = ((const uintptr_t*)self)[1], p = (uintptr_t)s;
  return p < d || d + n < p;
}
void __CPROVER_atomic_begin(void) {}
void __CPROVER_atomic_end(void) {}

#ifdef VF_ENTRY
void VF_ENTRY(void);
/* fills the stack region the harness is about to use, so that reads of uninitialised
   locals see a chosen pattern instead of whatever the loader left there */
static __attribute__((noinline)) void vf_poison_stack(int pat) { volatile unsigned char a[1 << 18]; for (unsigned i = 0; i < sizeof a; i++) a[i] = (unsigned char)pat; }
int main(void) {
  const char* p = getenv("VF_POISON");
  if (p) vf_poison_stack((int)strtoul(p, 0, 16));
  VF_ENTRY(); printf("VF-END\n"); return 0;
}
#endif
