/* lets gcc compile the generated C for the translator-validation run */
#include <stdint.h>
void __CPROVER_assume(_Bool);
void __CPROVER_assert(_Bool, const char*);
void __CPROVER_atomic_begin(void);
void __CPROVER_atomic_end(void);
uint8_t nondet_u8(void); uint16_t nondet_u16(void); uint32_t nondet_u32(void); uint64_t nondet_u64(void); _Bool nondet_bool(void);
void vf_observe(uint64_t);
