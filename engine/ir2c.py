#!/usr/bin/env python3
"""ir2c prototype: translate LLVM-14 textual IR (typed pointers) into C for CBMC.

Prototype written during the design phase to measure feasibility.
"""
import re, sys, argparse, collections

# ---------------------------------------------------------------- tokenizer
TOK_RE = re.compile(r'''
   (?P<ws>\s+)
 | (?P<comment>;[^\n]*)
 | (?P<cstr>c"(?:[^"\\]|\\[0-9A-Fa-f]{2}|\\\\)*")
 | (?P<str>"(?:[^"\\]|\\[0-9A-Fa-f]{2}|\\\\)*")
 | (?P<local>%(?:"(?:[^"\\]|\\.)*"|[-a-zA-Z$._0-9]+))
 | (?P<global>@(?:"(?:[^"\\]|\\.)*"|[-a-zA-Z$._0-9]+))
 | (?P<meta>![-a-zA-Z$._0-9]*)
 | (?P<attrgrp>\#\d+)
 | (?P<float>-?\d+\.\d*(?:[eE][-+]?\d+)?|0x[KLMHR]?[0-9A-Fa-f]+)
 | (?P<int>-?\d+)
 | (?P<dots>\.\.\.)
 | (?P<word>[a-zA-Z_][a-zA-Z_0-9.]*)
 | (?P<punct>[()\[\]{}<>,=*:|])
''', re.X)

def tokenize(s):
    out = []
    pos = 0
    n = len(s)
    while pos < n:
        m = TOK_RE.match(s, pos)
        if not m:
            raise SyntaxError('cannot tokenize at: ' + s[pos:pos+60])
        pos = m.end()
        k = m.lastgroup
        if k in ('ws', 'comment'):
            continue
        out.append((k, m.group(k)))
    return out

# ---------------------------------------------------------------- types
class T:
    pass

def tint(n): return ('int', n)
VOID = ('void',)
def tptr(t): return ('ptr', t)

CONST_WORDS = {'null', 'undef', 'poison', 'true', 'false', 'zeroinitializer', 'none',
               'getelementptr', 'bitcast', 'inttoptr', 'ptrtoint', 'select', 'add', 'sub',
               'mul', 'and', 'or', 'xor', 'shl', 'lshr', 'ashr', 'trunc', 'zext', 'sext',
               'icmp', 'blockaddress', 'addrspacecast', 'extractvalue', 'insertvalue',
               'udiv', 'sdiv', 'urem', 'srem', 'fneg'}

class Cursor:
    def __init__(self, toks):
        self.t = toks
        self.i = 0
    def peek(self, k=0):
        j = self.i + k
        return self.t[j] if j < len(self.t) else ('eof', '')
    def next(self):
        x = self.peek()
        self.i += 1
        return x
    def accept(self, val):
        if self.peek()[1] == val:
            self.i += 1
            return True
        return False
    def expect(self, val):
        x = self.next()
        if x[1] != val:
            raise SyntaxError('expected %r got %r near %r' % (val, x, self.t[max(0,self.i-6):self.i+4]))
    def eof(self):
        return self.i >= len(self.t)

def unq(name):
    """strip sigil and quotes from %"x" / @"x"."""
    s = name[1:]
    if s.startswith('"'):
        s = s[1:-1]
        s = re.sub(r'\\([0-9A-Fa-f]{2})', lambda m: chr(int(m.group(1), 16)), s)
    return s

def parse_type(c):
    k, v = c.next()
    if k == 'word':
        if re.fullmatch(r'i\d+', v): t = ('int', int(v[1:]))
        elif v == 'void': t = VOID
        elif v == 'float': t = ('float',)
        elif v == 'double': t = ('double',)
        elif v == 'x86_fp80': t = ('fp80',)
        elif v == 'label': t = ('label',)
        elif v == 'metadata': t = ('metadata',)
        elif v == 'opaque': t = ('opaque',)
        elif v == 'ptr': t = ('ptr', ('int', 8))
        else: raise SyntaxError('unknown type word ' + v)
    elif k == 'local':
        t = ('named', unq(v))
    elif v == '[':
        n = int(c.next()[1]); c.expect('x'); et = parse_type(c); c.expect(']')
        t = ('arr', n, et)
    elif v == '{':
        fs = []
        if not c.accept('}'):
            while True:
                fs.append(parse_type(c))
                if c.accept('}'): break
                c.expect(',')
        t = ('struct', tuple(fs), False)
    elif v == '<':
        if c.peek()[1] == '{':
            c.next()
            fs = []
            if not c.accept('}'):
                while True:
                    fs.append(parse_type(c))
                    if c.accept('}'): break
                    c.expect(',')
            c.expect('>')
            t = ('struct', tuple(fs), True)
        else:
            n = int(c.next()[1]); c.expect('x'); et = parse_type(c); c.expect('>')
            t = ('vec', n, et)
    else:
        raise SyntaxError('bad type start %r' % ((k, v),))
    # suffixes
    while True:
        if c.peek()[1] == '*':
            c.next(); t = ('ptr', t)
        elif c.peek()[1] == '(' and c.peek()[0] == 'punct':
            # function type
            c.next()
            ps = []; va = False
            if not c.accept(')'):
                while True:
                    if c.peek()[0] == 'dots':
                        c.next(); va = True
                    else:
                        ps.append(parse_type(c))
                        skip_attrs(c)
                    if c.accept(')'): break
                    c.expect(',')
            t = ('func', t, tuple(ps), va)
        elif c.peek() == ('word', 'addrspace'):
            c.next(); c.expect('('); c.next(); c.expect(')')
        else:
            break
    return t

def skip_attrs(c):
    """skip parameter/return attributes"""
    while True:
        k, v = c.peek()
        if k == 'word' and v not in CONST_WORDS and not re.fullmatch(r'i\d+', v) and v not in ('void', 'float', 'double', 'x86_fp80', 'label', 'metadata', 'to', 'x'):
            c.next()
            if c.peek()[1] == '(' :
                # attribute with argument e.g. dereferenceable(8), sret(%T), byval(%T)
                depth = 0
                while True:
                    kk, vv = c.next()
                    if vv == '(': depth += 1
                    elif vv == ')':
                        depth -= 1
                        if depth == 0: break
            elif v == 'align' and c.peek()[0] == 'int':
                c.next()
            continue
        if k == 'attrgrp':
            c.next(); continue
        break

# ---------------------------------------------------------------- values
# value repr: ('local', name) ('global', name) ('int', v) ('null',) ('undef',) ('zero',)
#  ('float', text) ('cstr', bytes) ('agg', [ (type, val) ...], kind) ('cexpr', op, ...)

def parse_const_or_value(c, ty):
    k, v = c.peek()
    if k == 'local': c.next(); return ('local', unq(v))
    if k == 'global': c.next(); return ('global', unq(v))
    if k == 'int': c.next(); return ('int', int(v))
    if k == 'float': c.next(); return ('float', v)
    if k == 'cstr':
        c.next()
        body = v[2:-1]
        bs = bytearray()
        i = 0
        while i < len(body):
            if body[i] == '\\':
                if body[i+1] == '\\': bs.append(92); i += 2
                else: bs.append(int(body[i+1:i+3], 16)); i += 3
            else:
                bs.append(ord(body[i])); i += 1
        return ('cstr', bytes(bs))
    if k == 'word':
        if v == 'null': c.next(); return ('null',)
        if v in ('undef', 'poison'): c.next(); return ('undef',)
        if v == 'zeroinitializer': c.next(); return ('zero',)
        if v == 'true': c.next(); return ('int', 1)
        if v == 'false': c.next(); return ('int', 0)
        if v == 'none': c.next(); return ('undef',)
        if v == 'getelementptr':
            c.next()
            c.accept('inbounds')
            c.expect('(')
            bt = parse_type(c); c.expect(',')
            pt = parse_type(c); pv = parse_const_or_value(c, pt)
            idx = []
            while c.accept(','):
                c.accept('inrange')
                it = parse_type(c); iv = parse_const_or_value(c, it)
                idx.append((it, iv))
            c.expect(')')
            return ('cexpr', 'gep', bt, (pt, pv), idx)
        if v in ('bitcast', 'inttoptr', 'ptrtoint', 'trunc', 'zext', 'sext', 'addrspacecast'):
            c.next(); c.expect('(')
            st = parse_type(c); sv = parse_const_or_value(c, st)
            c.expect('to'); dt = parse_type(c); c.expect(')')
            return ('cexpr', 'cast', v, (st, sv), dt)
        if v in ('add', 'sub', 'mul', 'and', 'or', 'xor', 'shl', 'lshr', 'ashr', 'udiv', 'sdiv', 'urem', 'srem'):
            c.next()
            while c.peek()[1] in ('nuw', 'nsw', 'exact'): c.next()
            c.expect('(')
            at = parse_type(c); av = parse_const_or_value(c, at); c.expect(',')
            bt = parse_type(c); bv = parse_const_or_value(c, bt); c.expect(')')
            return ('cexpr', 'bin', v, (at, av), (bt, bv))
        if v == 'icmp':
            c.next(); pred = c.next()[1]; c.expect('(')
            at = parse_type(c); av = parse_const_or_value(c, at); c.expect(',')
            bt = parse_type(c); bv = parse_const_or_value(c, bt); c.expect(')')
            return ('cexpr', 'icmp', pred, (at, av), (bt, bv))
        if v == 'select':
            c.next(); c.expect('(')
            ct = parse_type(c); cv = parse_const_or_value(c, ct); c.expect(',')
            at = parse_type(c); av = parse_const_or_value(c, at); c.expect(',')
            bt = parse_type(c); bv = parse_const_or_value(c, bt); c.expect(')')
            return ('cexpr', 'select', (ct, cv), (at, av), (bt, bv))
        raise SyntaxError('unknown constant word ' + v)
    if v == '{' or v == '[' or v == '<':
        c.next()
        packed = False
        close = {'{': '}', '[': ']', '<': '>'}[v]
        if v == '<' and c.peek()[1] == '{':
            c.next(); packed = True; close = '}'
        elems = []
        if not c.accept(close):
            while True:
                et = parse_type(c); ev = parse_const_or_value(c, et)
                elems.append((et, ev))
                if c.accept(close): break
                c.expect(',')
        if packed: c.expect('>')
        return ('agg', elems)
    raise SyntaxError('bad value %r' % ((k, v),))

# ---------------------------------------------------------------- module parse
class Func:
    def __init__(self):
        self.name = None; self.ret = None; self.params = []; self.vararg = False
        self.blocks = collections.OrderedDict(); self.is_decl = True
        self.byval = {}

class Module:
    def __init__(self):
        self.types = collections.OrderedDict()
        self.globals = collections.OrderedDict()
        self.funcs = collections.OrderedDict()
        self.aliases = {}

def strip_meta(line):
    # remove trailing ", !dbg !12, !tbaa !5" style metadata attachments
    # careful not to strip inside strings; instructions rarely contain '!' otherwise
    i = line.find(', !')
    if i >= 0 and not line.lstrip().startswith('!'):
        line = line[:i]
    return line

def parse_module(text):
    m = Module()
    lines = text.split('\n')
    i = 0
    while i < len(lines):
        ln = lines[i]
        s = ln.strip()
        if not s or s.startswith(';') or s.startswith('source_filename') or s.startswith('target ') or s.startswith('!') or s.startswith('attributes ') or s.startswith('$') or s.startswith('module asm'):
            i += 1; continue
        if s.startswith('%') and ' = type ' in s:
            name, rest = s.split(' = type ', 1)
            c = Cursor(tokenize(rest))
            m.types[unq(name.strip())] = parse_type(c)
            i += 1; continue
        if s.startswith('@'):
            parse_global(m, s)
            i += 1; continue
        if s.startswith('declare '):
            f = parse_func_header(s[len('declare '):])
            if f.name not in m.funcs:
                m.funcs[f.name] = f
            i += 1; continue
        if s.startswith('define '):
            hdr = s
            assert hdr.endswith('{'), hdr
            f = parse_func_header(hdr[len('define '):-1])
            f.is_decl = False
            i += 1
            cur = 'entry__'
            first = True
            body = []
            while lines[i].strip() != '}':
                l2 = lines[i]
                st = l2.strip()
                i += 1
                if not st or st.startswith(';'): continue
                mlab = re.match(r'^([-a-zA-Z$._0-9]+|"[^"]*"):', l2)
                if mlab:
                    cur = mlab.group(1).strip('"')
                    f.blocks[cur] = []
                    first = False
                    continue
                if first:
                    # implicit entry label: numbered after params
                    cur = None
                    first = False
                    f.blocks['__entry'] = []
                    cur = '__entry'
                if st.startswith('switch ') and st.rstrip().endswith('['):
                    acc = [strip_meta(st)]
                    while not lines[i].strip().startswith(']'):
                        acc.append(lines[i].strip()); i += 1
                    acc.append(']'); i += 1
                    st = ' '.join(acc)
                f.blocks[cur].append(strip_meta(st))
            i += 1
            m.funcs[f.name] = f
            continue
        raise SyntaxError('unhandled top-level line: ' + s[:100])
    return m

LINKAGE = {'private', 'internal', 'available_externally', 'linkonce', 'weak', 'common', 'appending',
           'extern_weak', 'linkonce_odr', 'weak_odr', 'external', 'dso_local', 'dso_preemptable',
           'hidden', 'protected', 'default', 'unnamed_addr', 'local_unnamed_addr', 'thread_local',
           'externally_initialized', 'dllimport', 'dllexport'}

def parse_global(m, s):
    s = strip_meta(s)
    toks = tokenize(s)
    c = Cursor(toks)
    name = unq(c.next()[1]); c.expect('=')
    is_const = False; external = False; tls = False
    while True:
        k, v = c.peek()
        if k == 'word' and v in LINKAGE:
            c.next()
            if v in ('external', 'extern_weak'): external = True
            if v == 'thread_local':
                tls = True
                if c.peek()[1] == '(':
                    c.next(); c.next(); c.expect(')')
            continue
        if k == 'word' and v == 'alias':
            c.next()
            parse_type(c); c.expect(',')
            at = parse_type(c); av = parse_const_or_value(c, at)
            m.aliases[name] = (at, av)
            return
        if k == 'word' and v in ('global', 'constant'):
            c.next(); is_const = (v == 'constant'); break
        if k == 'word' and v == 'addrspace':
            c.next(); c.expect('('); c.next(); c.expect(')'); continue
        raise SyntaxError('global parse: ' + s[:120])
    ty = parse_type(c)
    init = None
    if not c.eof() and c.peek()[1] != ',':
        init = parse_const_or_value(c, ty)
    m.globals[name] = dict(type=ty, init=init, const=is_const, external=external and init is None, tls=tls)

def parse_func_header(s):
    s = strip_meta(s)
    # strip trailing attributes after the closing paren of the param list: find matching
    toks = tokenize(s)
    c = Cursor(toks)
    f = Func()
    # linkage etc
    while True:
        k, v = c.peek()
        if k == 'word' and (v in LINKAGE or v in ('fastcc', 'ccc', 'coldcc', 'noundef', 'zeroext', 'signext', 'noalias', 'nonnull', 'inreg', 'tailcc')):
            c.next(); continue
        if k == 'word' and v in ('align', 'dereferenceable', 'dereferenceable_or_null'):
            c.next()
            if c.peek()[1] == '(':
                c.next(); c.next(); c.expect(')')
            else:
                c.next()
            continue
        break
    f.ret = parse_type_noFuncSuffix(c)
    skip_attrs(c)
    f.name = unq(c.next()[1])
    c.expect('(')
    idx = 0
    if not c.accept(')'):
        while True:
            if c.peek()[0] == 'dots':
                c.next(); f.vararg = True
            else:
                pt = parse_type(c)
                # attributes; detect byval
                start = c.i
                skip_attrs(c)
                attrs = c.t[start:c.i]
                pname = None
                if c.peek()[0] == 'local':
                    pname = unq(c.next()[1])
                else:
                    pname = '__arg%d' % idx
                if any(a == ('word', 'byval') for a in attrs):
                    f.byval[pname] = True
                f.pattrs = getattr(f, 'pattrs', {})
                f.pattrs[len(f.params)] = [a for a in attrs]
                f.params.append((pt, pname))
                idx += 1
            if c.accept(')'): break
            c.expect(',')
    return f

def parse_type_noFuncSuffix(c):
    """return type in a define/declare: a function type suffix '(' must not be consumed.
    We parse a type but stop before '(' unless it is followed by ')*' pattern (func ptr)."""
    # Strategy: parse base, then handle '*' and func-pointer suffixes only when paren group is followed by '*'
    k, v = c.next()
    if k == 'word':
        if re.fullmatch(r'i\d+', v): t = ('int', int(v[1:]))
        elif v == 'void': t = VOID
        elif v == 'float': t = ('float',)
        elif v == 'double': t = ('double',)
        elif v == 'x86_fp80': t = ('fp80',)
        else: raise SyntaxError('ret type word ' + v)
    elif k == 'local': t = ('named', unq(v))
    elif v in ('{', '[', '<'):
        c.i -= 1
        # safe: aggregate types; parse_type would also try suffixes, handle manually
        t = parse_type_agg_only(c)
    else:
        raise SyntaxError('ret type %r' % ((k, v),))
    while True:
        if c.peek()[1] == '*':
            c.next(); t = ('ptr', t); continue
        if c.peek()[1] == '(' :
            # look ahead for matching ')' followed by '*'
            depth = 0; j = c.i
            while True:
                vv = c.t[j][1]
                if vv == '(': depth += 1
                elif vv == ')':
                    depth -= 1
                    if depth == 0: break
                j += 1
            if j + 1 < len(c.t) and c.t[j+1][1] == '*':
                c.next()
                ps = []; va = False
                if not c.accept(')'):
                    while True:
                        if c.peek()[0] == 'dots': c.next(); va = True
                        else:
                            ps.append(parse_type(c)); skip_attrs(c)
                        if c.accept(')'): break
                        c.expect(',')
                t = ('func', t, tuple(ps), va)
                continue
        break
    return t

def parse_type_agg_only(c):
    k, v = c.next()
    if v == '[':
        n = int(c.next()[1]); c.expect('x'); et = parse_type(c); c.expect(']')
        return ('arr', n, et)
    if v == '{':
        fs = []
        if not c.accept('}'):
            while True:
                fs.append(parse_type(c))
                if c.accept('}'): break
                c.expect(',')
        return ('struct', tuple(fs), False)
    if v == '<':
        if c.peek()[1] == '{':
            c.next(); fs = []
            if not c.accept('}'):
                while True:
                    fs.append(parse_type(c))
                    if c.accept('}'): break
                    c.expect(',')
            c.expect('>')
            return ('struct', tuple(fs), True)
        n = int(c.next()[1]); c.expect('x'); et = parse_type(c); c.expect('>')
        return ('vec', n, et)
    raise SyntaxError('agg')

# ---------------------------------------------------------------- C emission
def cid(name):
    out = []
    for ch in name:
        if ch.isalnum() or ch == '_': out.append(ch)
        else: out.append('_%02x' % ord(ch))
    s = ''.join(out)
    if s[0].isdigit(): s = '_' + s
    return s

PASSTHRU = ('__CPROVER_', 'nondet_', 'vf_')
LIBC_BUILTIN = {'malloc', 'free', 'calloc', 'realloc', 'memcpy', 'memmove', 'memset', 'memcmp', 'strlen',
                'abort', 'exit', 'strdup', 'strncpy', 'strcpy', 'strcat', 'strncat', 'strrchr', 'strstr', 'strnlen', 'strtol', 'strtoul', 'strtoull', 'atoi', 'tolower', 'toupper', 'isdigit', 'isalpha', 'isalnum', 'strcmp', 'strncmp', 'memchr', 'strchr', 'isspace', 'bcmp'}

class Emitter:
    def __init__(self, m, opts):
        self.m = m
        self.opts = opts
        self.typedefs = []          # emitted in order
        self.tnames = {}            # type -> c name
        self.struct_done = set()
        self.struct_decl = set()
        self.struct_inprog = set()
        self.out = []
        self.lit_count = 0
        self.deferred = []

    # ---- names
    def gname(self, n):
        if n in self.m.aliases:
            at, av = self.m.aliases[n]
            if av[0] == 'global':
                return self.gname(av[1])
        if n.startswith('nondet_'):
            return 'vf_nd_' + n[7:]
        if n in ('memcpy', 'memmove'):
            return 'vf_' + n
        if n.startswith(PASSTHRU) or n in LIBC_BUILTIN or n in self.opts.roots:
            return n
        if n in self.opts.stubs:
            return self.opts.stubs[n]
        if n in self.opts.modelled:
            return 'M_' + cid(n)
        return 'G_' + cid(n)

    def lname(self, n):
        return 'v_' + cid(n)

    # ---- types
    def resolve(self, t):
        while t[0] == 'named':
            t = self.m.types[t[1]]
        return t

    def ctype(self, t):
        k = t[0]
        if k == 'int':
            n = t[1]
            if n == 1: return '_Bool'
            if n <= 8: return 'uint8_t'
            if n <= 16: return 'uint16_t'
            if n <= 32: return 'uint32_t'
            if n <= 64: return 'uint64_t'
            if n <= 128: return 'unsigned __int128'
            raise NotImplementedError('int width %d' % n)
        if k == 'void': return 'void'
        if k == 'float': return 'float'
        if k == 'double': return 'double'
        if k == 'fp80': return 'long double'
        if k == 'ptr':
            if t[1][0] == 'func':
                return self.functype_name(t[1]) + '*'
            if t[1][0] == 'void': return 'void*'
            if t[1][0] == 'named':
                self.need_struct(t[1], complete=False)
                self.deferred.append(t[1])
                return 'struct S_' + cid(t[1][1]) + '*'
            return self.ctype(t[1]) + '*'
        if k == 'named':
            nm = 'struct S_' + cid(t[1])
            self.need_struct(t)
            return nm
        if k in ('struct', 'arr'):
            return self.lit_name(t)
        if k == 'func':
            return self.functype_name(t)
        if k == 'opaque':
            return 'void'
        raise NotImplementedError('ctype ' + repr(t))

    def functype_name(self, t):
        if t in self.tnames: return self.tnames[t]
        nm = 'FT_%d' % len(self.tnames)
        self.tnames[t] = nm
        ret = self.ctype(t[1])
        ps = [self.ctype(p) for p in t[2]]
        if t[3] and ps: ps.append('...')
        if not ps: ps = ['void']
        self.typedefs.append('typedef %s %s(%s);' % (ret, nm, ', '.join(ps)))
        return nm

    def lit_name(self, t):
        if t in self.tnames: return self.tnames[t]
        import hashlib
        def code(x):
            k = x[0]
            if k == 'int': return 'u%d' % x[1]
            if k == 'float': return 'f32'
            if k == 'double': return 'f64'
            if k == 'ptr': return 'p' + (hashlib.md5(repr(x[1]).encode()).hexdigest()[:6] if x[1] != ('int', 8) else '')
            if k == 'arr': return 'a%d%s' % (x[1], code(x[2]))
            return 'h' + hashlib.md5(repr(x).encode()).hexdigest()[:8]
        if t[0] == 'arr': nm = 'struct A_' + code(t)
        else: nm = 'struct L_' + ('P_' if t[2] else '') + '_'.join(code(x) for x in t[1])
        if nm in self.tnames.values(): nm = nm + '_' + hashlib.md5(repr(t).encode()).hexdigest()[:6]
        self.tnames[t] = nm
        if t[0] == 'arr':
            et = self.ctype(t[2])
            n = t[1]
            self.typedefs.append('%s { %s a[%d]; };' % (nm, et, n if n > 0 else 0))
        else:
            fs = ['%s f%d;' % (self.ctype(ft), i) for i, ft in enumerate(t[1])]
            if not fs: fs = ['char _empty[0];']
            self.typedefs.append('%s { %s }%s;' % (nm, ' '.join(fs), ' __attribute__((packed))' if t[2] else ''))
        return nm

    def need_struct(self, t, complete=True):
        name = t[1]
        cn = 'struct S_' + cid(name)
        if name not in self.struct_decl:
            self.struct_decl.add(name)
            self.typedefs.append(cn + ';')
        if not complete or name in self.struct_done: return
        body = self.m.types[name]
        if body[0] == 'opaque':
            self.struct_done.add(name); return
        if name in self.struct_inprog:
            raise RuntimeError('by-value struct cycle at ' + name)
        self.struct_inprog.add(name)
        fs = []
        for i, ft in enumerate(body[1]):
            fs.append('%s f%d;' % (self.ctype(ft), i))
        if not fs: fs = ['char _empty[0];']
        self.typedefs.append('%s { %s }%s;' % (cn, ' '.join(fs), ' __attribute__((packed))' if body[2] else ''))
        self.struct_inprog.discard(name)
        self.struct_done.add(name)

    def ctype_member(self, t):
        return self.ctype(t)

    # ---- data layout (x86-64)
    def sizeof(self, t):
        t = self.resolve(t)
        k = t[0]
        if k == 'int':
            n = t[1]
            for w in (8, 16, 32, 64, 128):
                if n <= w: return w // 8
        if k == 'float': return 4
        if k == 'double': return 8
        if k == 'fp80': return 16
        if k == 'ptr': return 8
        if k == 'arr': return t[1] * self.sizeof(t[2])
        if k == 'struct':
            off = 0
            for ft in t[1]:
                if not t[2]:
                    a = self.alignof(ft); off = (off + a - 1) // a * a
                off += self.sizeof(ft)
            if not t[2]:
                a = self.alignof(t); off = (off + a - 1) // a * a
            return off
        raise NotImplementedError('sizeof %r' % (t,))

    def alignof(self, t):
        t = self.resolve(t)
        k = t[0]
        if k in ('int', 'float', 'double', 'fp80', 'ptr'): return self.sizeof(t)
        if k == 'arr': return self.alignof(t[2])
        if k == 'struct':
            if t[2] or not t[1]: return 1
            return max(self.alignof(ft) for ft in t[1])
        raise NotImplementedError('alignof %r' % (t,))

    def field_offsets(self, t):
        t = self.resolve(t); offs = []; off = 0
        for ft in t[1]:
            if not t[2]:
                a = self.alignof(ft); off = (off + a - 1) // a * a
            offs.append(off); off += self.sizeof(ft)
        return offs

    def zero_range(self, lv, ty, lo, hi, out):
        rt = self.resolve(ty); sz = self.sizeof(ty)
        if hi <= 0 or lo >= sz: return
        if lo <= 0 and hi >= sz:
            if rt[0] in ('int', 'float', 'double'): out.append('%s = 0;' % lv)
            elif rt[0] == 'ptr': out.append('%s = (%s)0;' % (lv, self.ctype(ty)))
            else: out.append('%s = (%s){0};' % (lv, self.ctype(ty)))
            return
        if rt[0] == 'struct':
            for j, (ft, o) in enumerate(zip(rt[1], self.field_offsets(ty))):
                self.zero_range('%s.f%d' % (lv, j), ft, lo - o, hi - o, out)
            return
        if rt[0] == 'arr':
            es = self.sizeof(rt[2])
            for i in range(rt[1]):
                self.zero_range('%s.a[%d]' % (lv, i), rt[2], lo - i * es, hi - i * es, out)
            return
        a = max(lo, 0); b_ = min(hi, sz)
        out.append('memset((char*)&%s + %d, 0, %d);' % (lv, a, b_ - a))

    # ---- constants
    def cconst(self, ty, v, static=False):
        k = v[0]
        rt = self.resolve(ty)
        if k == 'int':
            if rt[0] == 'int':
                n = rt[1]; val = v[1] & ((1 << n) - 1)
                if n == 1: return '%d' % val
                if n <= 32: return '%dU' % val
                if n <= 64: return '%dULL' % val
                hi = val >> 64; lo = val & ((1 << 64) - 1)
                return '((((unsigned __int128)%dULL) << 64) | %dULL)' % (hi, lo)
            if rt[0] in ('float', 'double'):
                return '%d.0' % v[1]
            raise NotImplementedError('int const of type %r' % (rt,))
        if k == 'float':
            txt = v[1]
            if txt.startswith('0x'):
                import struct
                bits = int(txt[2:], 16)
                d = struct.unpack('<d', struct.pack('<Q', bits))[0]
                return repr(d)
            return txt
        if k == 'null':
            return '((%s)0)' % self.ctype(ty)
        if k in ('undef', 'zero'):
            if rt[0] in ('int', 'float', 'double'): return '0'
            if rt[0] == 'ptr': return '((%s)0)' % self.ctype(ty)
            if static: return '{0}'
            return '((%s){0})' % self.ctype(ty)
        if k == 'global':
            g = self.gname(v[1])
            if v[1] in self.m.funcs or (v[1] in self.m.aliases):
                return '((%s)&%s)' % (self.ctype(ty), g)
            return '((%s)&%s)' % (self.ctype(ty), g)
        if k == 'local':
            return self.lname(v[1])
        if k == 'cstr':
            body = ', '.join(str(b) for b in v[1])
            if static: return '{ { %s } }' % body
            return '((%s){ { %s } })' % (self.ctype(ty), body)
        if k == 'agg':
            if rt[0] == 'arr':
                body = ', '.join(self.cconst(et, ev, static) for et, ev in v[1])
                if static: return '{ { %s } }' % body
                return '((%s){ { %s } })' % (self.ctype(ty), body)
            body = ', '.join(self.cconst(et, ev, static) for et, ev in v[1])
            if static: return '{ %s }' % body
            return '((%s){ %s })' % (self.ctype(ty), body)
        if k == 'cexpr':
            return self.cexpr(ty, v)
        raise NotImplementedError('const ' + repr(v))

    def cexpr(self, ty, v):
        op = v[1]
        if op == 'gep':
            _, _, bt, (pt, pv), idx = v
            e, rty = self.gep_expr(bt, self.cconst(pt, pv), idx)
            return '((%s)%s)' % (self.ctype(ty), e)
        if op == 'cast':
            _, _, cop, (st, sv), dt = v
            return self.cast_expr(cop, st, self.cconst(st, sv), dt)
        if op == 'bin':
            _, _, bop, (at, av), (bt, bv) = v
            return self.bin_expr(bop, at, self.cconst(at, av), self.cconst(bt, bv))
        if op == 'icmp':
            _, _, pred, (at, av), (bt, bv) = v
            return self.icmp_expr(pred, at, self.cconst(at, av), self.cconst(bt, bv))
        if op == 'select':
            _, _, (ct, cv), (at, av), (bt, bv) = v
            return '(%s ? %s : %s)' % (self.cconst(ct, cv), self.cconst(at, av), self.cconst(bt, bv))
        raise NotImplementedError(op)

    # ---- expression helpers
    def gep_expr(self, base_ty, pexpr, idx):
        """idx: list of (type, value-or-cexpr-string). returns (expr, result pointee type)"""
        cur = base_ty
        first = True
        e = None
        for it, iv in idx:
            ie = iv if isinstance(iv, str) else self.cconst(it, iv)
            const_i = None
            if not isinstance(iv, str) and iv[0] == 'int':
                const_i = iv[1]
            if first:
                first = False
                if const_i == 0:
                    e = '(*%s)' % pexpr
                else:
                    e = '(%s)[(int64_t)%s]' % (pexpr, self.sext_idx(it, ie))
                continue
            rc = self.resolve(cur)
            if rc[0] == 'struct':
                assert const_i is not None
                e = '%s.f%d' % (e, const_i)
                cur = rc[1][const_i]
            elif rc[0] == 'arr':
                if rc[1] == 0 or True:
                    # index through pointer to avoid static bounds on flexible arrays
                    e = '((%s*)(%s.a))[(int64_t)%s]' % (self.ctype(rc[2]), e, self.sext_idx(it, ie))
                cur = rc[2]
            else:
                raise NotImplementedError('gep into %r' % (rc,))
        return '(&%s)' % e, cur

    def sext_idx(self, it, ie):
        n = self.resolve(it)[1]
        if n == 64: return '(int64_t)%s' % ie
        if n == 32: return '(int32_t)%s' % ie
        if n == 16: return '(int16_t)%s' % ie
        if n == 8: return '(int8_t)%s' % ie
        return ie

    def signed_of(self, ty, e):
        n = self.resolve(ty)[1]
        if n in (8, 16, 32, 64): return '((int%d_t)%s)' % (n, e)
        if n == 128: return '((__int128)%s)' % e
        if n == 1: return '((int8_t)-(int8_t)%s)' % e
        # odd width: sign extend manually within the container
        cw = 8 if n <= 8 else 16 if n <= 16 else 32 if n <= 32 else 64
        return '(((int%d_t)((uint%d_t)%s << %d)) >> %d)' % (cw, cw, e, cw - n, cw - n)

    def mask(self, ty, e):
        n = self.resolve(ty)[1]
        if n in (1, 8, 16, 32, 64, 128): return '((%s)(%s))' % (self.ctype(ty), e)
        return '((%s)((%s) & %dULL))' % (self.ctype(ty), e, (1 << n) - 1)

    def wide(self, ty):
        n = self.resolve(ty)[1]
        if n <= 32: return 'uint32_t'
        if n <= 64: return 'uint64_t'
        return 'unsigned __int128'

    def bin_expr(self, op, ty, a, b):
        rt = self.resolve(ty)
        if rt[0] in ('float', 'double'):
            sym = {'fadd': '+', 'fsub': '-', 'fmul': '*', 'fdiv': '/'}[op]
            return '(%s %s %s)' % (a, sym, b)
        W = self.wide(ty)
        if op in ('add', 'sub', 'mul', 'and', 'or', 'xor'):
            sym = {'add': '+', 'sub': '-', 'mul': '*', 'and': '&', 'or': '|', 'xor': '^'}[op]
            return self.mask(ty, '(%s)%s %s (%s)%s' % (W, a, sym, W, b))
        if op in ('udiv', 'urem'):
            sym = '/' if op == 'udiv' else '%'
            return self.mask(ty, '(%s)%s %s (%s)%s' % (W, a, sym, W, b))
        if op in ('sdiv', 'srem'):
            sym = '/' if op == 'sdiv' else '%'
            return self.mask(ty, '%s %s %s' % (self.signed_of(ty, a), sym, self.signed_of(ty, b)))
        n = self.resolve(ty)[1]
        if op == 'shl':
            return self.mask(ty, '((%s) < %d ? (%s)%s << (%s) : 0)' % (b, n, W, a, b))
        if op == 'lshr':
            return self.mask(ty, '((%s) < %d ? (%s)%s >> (%s) : 0)' % (b, n, W, a, b))
        if op == 'ashr':
            return self.mask(ty, '((%s) < %d ? %s >> (%s) : 0)' % (b, n, self.signed_of(ty, a), b))
        raise NotImplementedError(op)

    def icmp_expr(self, pred, ty, a, b):
        rt = self.resolve(ty)
        if rt[0] == 'ptr':
            sym = {'eq': '==', 'ne': '!=', 'ult': '<', 'ule': '<=', 'ugt': '>', 'uge': '>=',
                   'slt': '<', 'sle': '<=', 'sgt': '>', 'sge': '>='}[pred]
            if pred in ('eq', 'ne'):
                return '((void*)%s %s (void*)%s)' % (a, sym, b)
            return '((uintptr_t)%s %s (uintptr_t)%s)' % (a, sym, b)
        if pred in ('eq', 'ne', 'ult', 'ule', 'ugt', 'uge'):
            sym = {'eq': '==', 'ne': '!=', 'ult': '<', 'ule': '<=', 'ugt': '>', 'uge': '>='}[pred]
            return '(%s %s %s)' % (a, sym, b)
        sym = {'slt': '<', 'sle': '<=', 'sgt': '>', 'sge': '>='}[pred]
        return '(%s %s %s)' % (self.signed_of(ty, a), sym, self.signed_of(ty, b))

    def cast_expr(self, op, st, se, dt):
        d = self.ctype(dt)
        if op in ('bitcast', 'addrspacecast'):
            rs = self.resolve(st); rd = self.resolve(dt)
            if rs[0] == 'ptr' and rd[0] == 'ptr':
                return '((%s)%s)' % (d, se)
            return 'BITCAST(%s, %s, %s)' % (d, self.ctype(st), se)
        if op == 'inttoptr': return '((%s)(uintptr_t)%s)' % (d, se)
        if op == 'ptrtoint': return self.mask(dt, '(uintptr_t)%s' % se)
        if op == 'zext': return '((%s)%s)' % (d, se)
        if op == 'trunc':
            if self.resolve(dt)[1] == 1: return '((_Bool)((%s) & 1))' % se
            return self.mask(dt, se)
        if op == 'sext': return self.mask(dt, self.signed_of(st, se))
        if op in ('uitofp',): return '((%s)%s)' % (d, se)
        if op in ('sitofp',): return '((%s)%s)' % (d, self.signed_of(st, se))
        if op == 'fptoui': return self.mask(dt, '(uint64_t)%s' % se)
        if op == 'fptosi': return self.mask(dt, '(int64_t)%s' % se)
        if op in ('fpext', 'fptrunc'): return '((%s)%s)' % (d, se)
        raise NotImplementedError(op)

    # ---- instruction translation
    def val(self, ty, v):
        return self.cconst(ty, v)

    def emit_function(self, f):
        body = []
        decls = collections.OrderedDict()
        def declare(name, ty):
            cn = self.lname(name)
            if cn not in decls:
                decls[cn] = self.ctype(ty)
            return cn
        labels = {}
        names = list(f.blocks.keys())
        # implicit numbering: entry block label is the number after params if unnamed
        def lab(b):
            return 'BB_' + cid(b)
        # determine entry label name for phi predecessor refs: unnamed entry = %N where N = #params (unnamed) -> we stored '__entry'
        # find numeric name for entry
        entry_alias = None
        # count unnamed values: params unnamed get 0..k-1, then entry block gets k
        unnamed = sum(1 for (_, pn) in f.params if re.fullmatch(r'\d+', pn))
        if '__entry' in f.blocks:
            entry_alias = str(unnamed)
        def canon(b):
            if entry_alias is not None and b == entry_alias: return '__entry'
            return b
        # collect phis
        phis = {}  # block -> list of (name, type, [(val, pred)])
        parsed = {}
        for b, insts in f.blocks.items():
            plist = []
            rest = []
            for s in insts:
                mm = re.match(r'^(%(?:"[^"]*"|[-a-zA-Z$._0-9]+)) = phi ', s)
                if mm:
                    c = Cursor(tokenize(s))
                    nm = unq(c.next()[1]); c.expect('='); c.expect('phi')
                    ty = parse_type(c)
                    inc = []
                    while True:
                        c.expect('[')
                        v = parse_const_or_value(c, ty); c.expect(',')
                        p = unq(c.next()[1]); c.expect(']')
                        inc.append((v, canon(p)))
                        if not c.accept(','): break
                    plist.append((nm, ty, inc))
                else:
                    rest.append(s)
            phis[b] = plist
            parsed[b] = rest
        for b in f.blocks:
            for nm, ty, inc in phis[b]:
                declare(nm, ty)
                decls[self.lname(nm) + '__in'] = self.ctype(ty)

        def edge(frm, to):
            """code executed on edge frm->to: phi input copies + goto"""
            to = canon(to)
            out = []
            for nm, ty, inc in phis[to]:
                for v, p in inc:
                    if p == frm:
                        out.append('%s__in = %s;' % (self.lname(nm), self.val(ty, v)))
                        break
                else:
                    raise RuntimeError('phi %s in %s has no incoming for %s' % (nm, to, frm))
            out.append('goto %s;' % lab(to))
            return ' '.join(out)

        allocas = []
        self.castmap = {}
        for b in f.blocks:
            for st_ in parsed[b]:
                mm = re.match(r'^%(\S+) = bitcast i8\* %(\S+) to (.+)\*$', st_)
                if mm and mm.group(2) not in self.castmap:
                    try:
                        self.castmap[mm.group(2)] = parse_type(Cursor(tokenize(mm.group(3))))
                    except Exception:
                        pass
        self.i8src = {}
        self.gepdef = {}
        self.i8srcname = {}
        for b in f.blocks:
            for st_ in parsed[b]:
                mm = re.match(r'^%(\S+) = bitcast (.+)\* %(\S+) to i8\*$', st_)
                if mm:
                    try:
                        self.i8src[mm.group(1)] = parse_type(Cursor(tokenize(mm.group(2))))
                        self.i8srcname[mm.group(1)] = mm.group(3).strip('"')
                    except Exception: pass
        # infer allocation types from stores through bitcast slots:  %p = bitcast T** %q to i8** ; store i8* %r, i8** %p
        slotty = {}
        for b in f.blocks:
            for st_ in parsed[b]:
                mm = re.match(r'^%(\S+) = bitcast (.+)\*\* %(\S+) to i8\*\*$', st_)
                if mm:
                    try: slotty[mm.group(1)] = parse_type(Cursor(tokenize(mm.group(2))))
                    except Exception: pass
        for b in f.blocks:
            for st_ in parsed[b]:
                mm = re.match(r'^store i8\* %(\S+), i8\*\* %(\S+?)(,|$)', st_)
                if mm and mm.group(1) not in self.castmap and mm.group(2) in slotty:
                    self.castmap[mm.group(1)] = slotty[mm.group(2)]
        # block layout: reverse post-order so that only loop back edges are backward gotos
        succs = {}
        for b in f.blocks:
            term = parsed[b][-1] if parsed[b] else ''
            ss = []
            for mm in re.finditer(r'label (%(?:"[^"]*"|[-a-zA-Z$._0-9]+))', term):
                t = canon(unq(mm.group(1)))
                if t not in ss: ss.append(t)
            succs[b] = ss
        order = []; seen_b = set()
        entry_b = list(f.blocks.keys())[0]
        stack = [(entry_b, iter(reversed(succs[entry_b])))]
        seen_b.add(entry_b)
        while stack:
            node, it = stack[-1]
            adv = False
            for t in it:
                if t not in seen_b:
                    seen_b.add(t); stack.append((t, iter(reversed(succs[t])))); adv = True; break
            if not adv:
                order.append(node); stack.pop()
        order.reverse()
        self.n_backedges = getattr(self, 'n_backedges', 0)
        for b in order:
            body.append('%s: ;' % lab(b))
            for nm, ty, inc in phis[b]:
                body.append('  %s = %s__in;' % (self.lname(nm), self.lname(nm)))
            for s in parsed[b]:
                try:
                    body.extend('  ' + x for x in self.emit_inst(f, b, s, declare, edge, allocas))
                except Exception as ex:
                    raise RuntimeError('in %s block %s: %s\n  %r' % (f.name, b, s, ex)) from ex
        # header
        ps = []
        pre = []
        for pt, pn in f.params:
            cn = self.lname(pn)
            ps.append('%s %s' % (self.ctype(pt), cn))
            if pn in f.byval:
                pre.append('  %s %s__copy = *%s; %s = &%s__copy;' % (self.ctype(pt[1]), cn, cn, cn, cn))
        if f.vararg: ps.append('...')
        if not ps: ps = ['void']
        hdr = '%s %s(%s)' % (self.ctype(f.ret), self.gname(f.name), ', '.join(ps))
        lines = [hdr + ' {']
        for cn, ct in decls.items():
            lines.append('  %s %s;' % (ct, cn))
        lines.extend(allocas)
        lines.extend(pre)
        first = list(f.blocks.keys())[0]
        lines.append('  goto %s;' % lab(first))
        lines.extend(body)
        lines.append('}')
        return hdr, '\n'.join(lines)

    def emit_inst(self, f, b, s, declare, edge, allocas):
        c = Cursor(tokenize(s))
        dest = None
        if c.peek()[0] == 'local' and c.peek(1)[1] == '=':
            dest = unq(c.next()[1]); c.next()
        k, op = c.next()
        out = []
        def setd(ty, expr):
            if self.resolve(ty) == VOID or dest is None:
                out.append('%s;' % expr)
            else:
                cn = declare(dest, ty)
                out.append('%s = %s;' % (cn, expr))
        if op in ('tail', 'musttail', 'notail'):
            k, op = c.next()
        if op == 'ret':
            ty = parse_type(c)
            if ty == VOID: return ['return;']
            v = parse_const_or_value(c, ty)
            return ['return %s;' % self.val(ty, v)]
        if op == 'br':
            if c.peek() == ('word', 'label'):
                c.next(); t = unq(c.next()[1])
                return [edge(b, t)]
            ty = parse_type(c); cv = parse_const_or_value(c, ty); c.expect(',')
            c.expect('label'); t1 = unq(c.next()[1]); c.expect(',')
            c.expect('label'); t2 = unq(c.next()[1])
            return ['if (%s) { %s } else { %s }' % (self.val(ty, cv), edge(b, t1), edge(b, t2))]
        if op == 'switch':
            ty = parse_type(c); v = parse_const_or_value(c, ty); c.expect(',')
            c.expect('label'); dflt = unq(c.next()[1]); c.expect('[')
            cases = []
            while not c.accept(']'):
                ct = parse_type(c); cv = parse_const_or_value(c, ct); c.expect(',')
                c.expect('label'); tgt = unq(c.next()[1])
                cases.append((cv, tgt))
            o = ['switch (%s) {' % self.val(ty, v)]
            for cv, tgt in cases:
                o.append('  case %s: { %s }' % (self.val(ty, cv), edge(b, tgt)))
            o.append('  default: { %s }' % edge(b, dflt))
            o.append('}')
            return o
        if op == 'unreachable':
            return ['IR_UNREACHABLE();']
        if op == 'alloca':
            ty = parse_type(c)
            cnt = None
            if c.accept(','):
                if c.peek() != ('word', 'align'):
                    nt = parse_type(c); cnt = parse_const_or_value(c, nt)
            cn = declare(dest, ('ptr', ty))
            if cnt is None:
                allocas.append('  %s %s__obj;' % (self.ctype(ty), cn))
                return ['%s = &%s__obj;' % (cn, cn)]
            return ['%s = (%s*)alloca(sizeof(%s) * %s);' % (cn, self.ctype(ty), self.ctype(ty), self.val(nt, cnt))]
        if op == 'load':
            c.accept('atomic'); c.accept('volatile')
            ty = parse_type(c); c.expect(',')
            pt = parse_type(c); pv = parse_const_or_value(c, pt)
            setd(ty, '*%s' % self.val(pt, pv))
            return out
        if op == 'store':
            c.accept('atomic'); c.accept('volatile')
            ty = parse_type(c); v = parse_const_or_value(c, ty); c.expect(',')
            pt = parse_type(c); pv = parse_const_or_value(c, pt)
            return ['*%s = %s;' % (self.val(pt, pv), self.val(ty, v))]
        if op == 'getelementptr':
            c.accept('inbounds')
            bt = parse_type(c); c.expect(',')
            pt = parse_type(c); pv = parse_const_or_value(c, pt)
            idx = []
            while c.accept(','):
                it = parse_type(c); iv = parse_const_or_value(c, it)
                idx.append((it, iv))
            e, rty = self.gep_expr(bt, self.val(pt, pv), idx)
            if dest is not None: self.gepdef[dest] = (bt, (pt, pv), idx)
            setd(('ptr', rty), e)
            return out
        if op in ('bitcast', 'inttoptr', 'ptrtoint', 'zext', 'sext', 'trunc', 'uitofp', 'sitofp', 'fptoui', 'fptosi', 'fpext', 'fptrunc', 'addrspacecast'):
            st = parse_type(c); sv = parse_const_or_value(c, st); c.expect('to'); dt = parse_type(c)
            setd(dt, self.cast_expr(op, st, self.val(st, sv), dt))
            return out
        if op in ('add', 'sub', 'mul', 'udiv', 'sdiv', 'urem', 'srem', 'shl', 'lshr', 'ashr', 'and', 'or', 'xor', 'fadd', 'fsub', 'fmul', 'fdiv'):
            while c.peek()[1] in ('nuw', 'nsw', 'exact', 'fast', 'nnan', 'ninf', 'nsz', 'arcp', 'contract', 'afn', 'reassoc'): c.next()
            ty = parse_type(c); a = parse_const_or_value(c, ty); c.expect(','); bv = parse_const_or_value(c, ty)
            setd(ty, self.bin_expr(op, ty, self.val(ty, a), self.val(ty, bv)))
            return out
        if op == 'icmp':
            pred = c.next()[1]
            ty = parse_type(c); a = parse_const_or_value(c, ty); c.expect(','); bv = parse_const_or_value(c, ty)
            setd(('int', 1), self.icmp_expr(pred, ty, self.val(ty, a), self.val(ty, bv)))
            return out
        if op == 'fcmp':
            while c.peek()[1] in ('fast', 'nnan', 'ninf', 'nsz'): c.next()
            pred = c.next()[1]
            ty = parse_type(c); a = parse_const_or_value(c, ty); c.expect(','); bv = parse_const_or_value(c, ty)
            A = self.val(ty, a); B = self.val(ty, bv)
            sym = {'oeq': '==', 'one': '!=', 'olt': '<', 'ole': '<=', 'ogt': '>', 'oge': '>=',
                   'ueq': '==', 'une': '!=', 'ult': '<', 'ule': '<=', 'ugt': '>', 'uge': '>='}.get(pred)
            if sym is None: raise NotImplementedError('fcmp ' + pred)
            setd(('int', 1), '(%s %s %s)' % (A, sym, B))
            return out
        if op == 'select':
            ct = parse_type(c); cv = parse_const_or_value(c, ct); c.expect(',')
            at = parse_type(c); av = parse_const_or_value(c, at); c.expect(',')
            bt = parse_type(c); bv = parse_const_or_value(c, bt)
            setd(at, '(%s ? %s : %s)' % (self.val(ct, cv), self.val(at, av), self.val(bt, bv)))
            return out
        if op == 'freeze':
            ty = parse_type(c); v = parse_const_or_value(c, ty)
            setd(ty, self.val(ty, v)); return out
        if op == 'extractvalue':
            ty = parse_type(c); v = parse_const_or_value(c, ty)
            e = self.val(ty, v); cur = ty
            while c.accept(','):
                i = int(c.next()[1])
                rc = self.resolve(cur)
                if rc[0] == 'struct': e = '%s.f%d' % (e, i); cur = rc[1][i]
                else: e = '%s.a[%d]' % (e, i); cur = rc[2]
            setd(cur, e); return out
        if op == 'insertvalue':
            ty = parse_type(c); v = parse_const_or_value(c, ty); c.expect(',')
            et = parse_type(c); ev = parse_const_or_value(c, et)
            cn = declare(dest, ty)
            out.append('%s = %s;' % (cn, self.val(ty, v)))
            e = cn; cur = ty
            while c.accept(','):
                i = int(c.next()[1])
                rc = self.resolve(cur)
                if rc[0] == 'struct': e = '%s.f%d' % (e, i); cur = rc[1][i]
                else: e = '%s.a[%d]' % (e, i); cur = rc[2]
            out.append('%s = %s;' % (e, self.val(et, ev)))
            return out
        if op == 'call':
            return self.emit_call(c, dest, declare, setd, out)
        if op == 'fence':
            return ['/* fence */;']
        if op == 'atomicrmw':
            c.accept('volatile')
            rop = c.next()[1]
            pt = parse_type(c); pv = parse_const_or_value(c, pt); c.expect(',')
            ty = parse_type(c); v = parse_const_or_value(c, ty)
            P = self.val(pt, pv); V = self.val(ty, v)
            cn = declare(dest, ty)
            newv = {'add': self.bin_expr('add', ty, '*' + P, V), 'sub': self.bin_expr('sub', ty, '*' + P, V),
                    'xchg': V, 'and': self.bin_expr('and', ty, '*' + P, V), 'or': self.bin_expr('or', ty, '*' + P, V),
                    'xor': self.bin_expr('xor', ty, '*' + P, V)}[rop]
            return ['__CPROVER_atomic_begin(); %s = *%s; *%s = %s; __CPROVER_atomic_end();' % (cn, P, P, newv)]
        if op == 'cmpxchg':
            c.accept('weak'); c.accept('volatile')
            pt = parse_type(c); pv = parse_const_or_value(c, pt); c.expect(',')
            ty = parse_type(c); cmpv = parse_const_or_value(c, ty); c.expect(',')
            ty2 = parse_type(c); newv = parse_const_or_value(c, ty2)
            rty = ('struct', (ty, ('int', 1)), False)
            cn = declare(dest, rty)
            P = self.val(pt, pv)
            return ['__CPROVER_atomic_begin(); %s.f0 = *%s; %s.f1 = (%s.f0 == %s); if (%s.f1) *%s = %s; __CPROVER_atomic_end();'
                    % (cn, P, cn, cn, self.val(ty, cmpv), cn, P, self.val(ty2, newv))]
        raise NotImplementedError('instruction ' + op)

    def emit_call(self, c, dest, declare, setd, out):
        # [cconv] [ret attrs] type [fnty] callee(args)
        while c.peek()[0] == 'word' and c.peek()[1] in ('fastcc', 'ccc', 'coldcc', 'tailcc', 'fast', 'nnan', 'ninf', 'nsz', 'arcp', 'contract', 'afn', 'reassoc'):
            c.next()
        skip_attrs(c)
        rty = parse_type(c)   # may be a full function type for varargs/indirect: "i32 (i8*, ...)"
        fnty = None
        if rty[0] == 'func':
            fnty = rty; rty = fnty[1]
        elif rty[0] == 'ptr' and rty[1][0] == 'func' and c.peek()[0] in ('local', 'global') and False:
            pass
        k, v = c.peek()
        callee_local = None; callee_global = None; callee_expr = None
        if k == 'global':
            c.next(); callee_global = unq(v)
        elif k == 'local':
            c.next(); callee_local = unq(v)
        elif k == 'word' and v in ('bitcast', 'inttoptr'):
            # call through constant-expression cast
            cv = parse_const_or_value(c, ('ptr', ('int', 8)))
            callee_expr = cv
        else:
            raise SyntaxError('callee %r' % ((k, v),))
        c.expect('(')
        args = []
        if not c.accept(')'):
            while True:
                at = parse_type(c)
                skip_attrs(c)
                if at == ('metadata',):
                    # skip metadata operand
                    while c.peek()[1] not in (',', ')'): c.next()
                    av = None
                else:
                    av = parse_const_or_value(c, at)
                args.append((at, av))
                if c.accept(')'): break
                c.expect(',')
        # intrinsics
        if callee_global and callee_global.startswith('llvm.'):
            return self.emit_intrinsic(callee_global, rty, args, dest, declare, setd, out)
        if callee_global == '__CPROVER_assert':
            msg = 'assertion'
            av = args[1][1]
            gv = None
            if av[0] == 'cexpr' and av[1] == 'gep' and av[3][1][0] == 'global': gv = av[3][1][1]
            elif av[0] == 'global': gv = av[1]
            if gv and gv in self.m.globals and self.m.globals[gv]['init'] and self.m.globals[gv]['init'][0] == 'cstr':
                msg = self.m.globals[gv]['init'][1].rstrip(b'\0').decode('latin1')
            if msg == 'assertion':
                raise RuntimeError('__CPROVER_assert with a non-constant message (merged call sites?)')
            msg = re.sub(r'[^-A-Za-z0-9 _.,:;()<>=+*/\[\]]', '?', msg)
            out.append('__CPROVER_assert(%s, "%s");' % (self.val(*args[0]), msg))
            return out
        if callee_global in ('_Znwm', '_Znam', 'malloc') and args and args[0][1][0] == 'int' and dest is not None:
            nbytes = args[0][1][1]
            tt = self.castmap.get(dest)
            expr = None
            if tt is not None and tt[0] != 'func' and self.resolve(tt)[0] != 'opaque' and tt != ('int', 8):
                try:
                    sz = self.sizeof(tt)
                    if sz and nbytes % sz == 0 and nbytes // sz >= 1:
                        k = nbytes // sz
                        expr = '(uint8_t*)VF_TYPED_ALLOC(%s, %d)' % (self.ctype(tt), k)
                except NotImplementedError:
                    pass
            if expr is None:
                expr = '(uint8_t*)VF_BYTES_ALLOC(%d)' % nbytes
            setd(rty, expr)
            return out
        if callee_global in ('_Znwm', '_Znam', 'malloc') and args and args[0][1][0] != 'int' and dest is not None:
            tt = self.castmap.get(dest)
            if tt is not None and tt[0] != 'func' and self.resolve(tt)[0] != 'opaque':
                setd(rty, '(uint8_t*)VF_TYPED_ALLOC_N(%s, %s)' % (self.ctype(tt), self.val(*args[0])))
                return out
            setd(rty, '(uint8_t*)VF_BYTES_ALLOC_N(%s)' % self.val(*args[0]))
            return out
        argstr = ', '.join(self.val(at, av) for at, av in args)
        if callee_global:
            fn = self.gname(callee_global)
            if fnty is not None and callee_global in self.m.funcs and not self.m.funcs[callee_global].vararg and False:
                pass
            setd(rty, '%s(%s)' % (fn, argstr))
            return out
        # indirect
        if fnty is None:
            fnty = ('func', rty, tuple(at for at, _ in args), False)
        ftn = self.functype_name(fnty)
        if callee_local:
            ce = self.lname(callee_local)
        else:
            ce = self.cconst(('ptr', fnty), callee_expr)
        setd(rty, '((%s*)%s)(%s)' % (ftn, ce, argstr))
        return out

    def emit_intrinsic(self, name, rty, args, dest, declare, setd, out):
        A = [self.val(at, av) if av is not None else None for at, av in args]
        base = name.split('.')
        if name.startswith('llvm.lifetime.') or name.startswith('llvm.dbg.') or name.startswith('llvm.experimental.noalias') or name.startswith('llvm.invariant.') :
            return ['/* %s */;' % name]
        if name.startswith('llvm.assume'):
            return ['/* llvm.assume(%s) */;' % A[0]]
        if name.startswith('llvm.memcpy.') or name.startswith('llvm.memmove.'):
            if args[2][1][0] == 'int':
                n = args[2][1][1]
                tys = []
                for k_ in (0, 1):
                    v_ = args[k_][1]
                    if v_[0] == 'local' and v_[1] in self.i8src: tys.append(self.i8src[v_[1]])
                tt = None
                for t_ in tys:
                    try:
                        if self.resolve(t_)[0] in ('struct', 'arr') and self.sizeof(t_) == n: tt = t_; break
                    except NotImplementedError: pass
                if tt is not None and n > 0:
                    ct = self.ctype(tt)
                    return ['*(%s*)%s = *(%s*)%s;' % (ct, A[0], ct, A[1])]
            fn = 'vf_memcpy' if name.startswith('llvm.memcpy.') else 'vf_memmove'
            if args[2][1][0] == 'int':
                if BYTE_COPY_LOOPS and name.startswith('llvm.memcpy.') and 0 < args[2][1][1] <= 64:
                    # constant-length byte copy, unrolled: symex then propagates constant bytes (string literals into std::string storage)
                    return ['{ uint8_t* d_ = (uint8_t*)%s; const uint8_t* s_ = (const uint8_t*)%s; %s }' % (A[0], A[1], ' '.join('d_[%d] = s_[%d];' % (k_, k_) for k_ in range(args[2][1][1])))]
                fn = fn[3:]   # constant length: CBMC's built-in is exact and cheap
            else:
                # dynamic length: copy element-wise in the element type the pointers were cast from
                # (typed assignments stay field-sensitive in CBMC; the loop is bounded by --unwind)
                et = None
                for k_ in (0, 1):
                    v_ = args[k_][1]
                    if v_[0] == 'local' and v_[1] in self.i8src:
                        t_ = self.i8src[v_[1]]
                        try:
                            if t_[0] != 'func' and self.resolve(t_)[0] != 'opaque' and self.sizeof(t_) >= 1: et = t_; break
                        except (NotImplementedError, KeyError): pass
                if et is not None:
                    ct = self.ctype(et)
                    return ['VF_TYPED_MOVE(%s, %s, %s, %s);' % (ct, A[0], A[1], A[2])]
                if not BYTE_COPY_LOOPS and all(not (args[k_][1][0] == 'local' and args[k_][1][1] in self.i8src) for k_ in (0, 1)):
                    # genuine byte buffers (the pointers are i8* at the source level, e.g. string storage): CBMC's
                    # built-in array copy is exact on char arrays and far cheaper than a byte loop through
                    # pointers with several candidate objects (measured: one loop iteration took 60 s)
                    fn = fn[3:]
            return ['if (%s) %s(%s, %s, %s);' % (A[2], fn, A[0], A[1], A[2])]   # a zero-length copy touches nothing (dest may be null)
        if name.startswith('llvm.memset.'):
            v0 = args[0][1]
            if args[2][1][0] == 'int' and args[1][1] == ('int', 0) and v0[0] == 'local' and v0[1] in self.i8src:
                n = args[2][1][1]; T = self.i8src[v0[1]]; src = self.i8srcname[v0[1]]
                onepast = False
                if src in self.gepdef:
                    _bt, _p, _idx = self.gepdef[src]
                    if _idx and _idx[0][1][0] == 'int' and _idx[0][1][1] != 0: onepast = True   # pointer stepped past an object: T does not describe what is there
                try:
                    o2 = []
                    szT = self.sizeof(T)
                    if onepast:
                        raise NotImplementedError('one-past pointer')
                    if n <= szT:
                        self.zero_range('(*%s)' % self.lname(src), T, 0, n, o2)
                        return o2 or ['/* memset 0 bytes */;']
                    if src in self.gepdef:
                        bt, (pt, pv), idx = self.gepdef[src]
                        lastt, lastv = idx[-1]
                        if len(idx) >= 2 and lastv[0] == 'int':
                            pe, pty = self.gep_expr(bt, self.val(pt, pv), idx[:-1])
                            rp = self.resolve(pty)
                            if rp[0] == 'struct':
                                off = self.field_offsets(pty)[lastv[1]]
                                if off + n <= self.sizeof(pty):
                                    self.zero_range('(*%s)' % pe, pty, off, off + n, o2)
                                    return o2
                except NotImplementedError:
                    pass
            if args[2][1][0] == 'int' and args[1][1] == ('int', 0) and args[2][1][1] % 8 == 0 and 0 < args[2][1][1] <= 128:
                return ['((uint64_t*)%s)[%d] = 0;' % (A[0], k) for k in range(args[2][1][1] // 8)]
            return ['if (%s) memset(%s, %s, %s);' % (A[2], A[0], A[1], A[2])]
        if name.startswith('llvm.expect.'):
            setd(rty, A[0]); return out
        if name.startswith('llvm.objectsize.'):
            setd(rty, self.cconst(rty, ('int', -1))); return out
        if name.startswith('llvm.trap') or name.startswith('llvm.debugtrap'):
            return ['IR_TRAP();']
        m = re.match(r'llvm\.(umax|umin|smax|smin)\.', name)
        if m:
            ty = args[0][0]
            o = m.group(1)
            if o[0] == 'u':
                cmp = '>' if o == 'umax' else '<'
                setd(rty, '(%s %s %s ? %s : %s)' % (A[0], cmp, A[1], A[0], A[1]))
            else:
                cmp = '>' if o == 'smax' else '<'
                setd(rty, '(%s %s %s ? %s : %s)' % (self.signed_of(ty, A[0]), cmp, self.signed_of(ty, A[1]), A[0], A[1]))
            return out
        m = re.match(r'llvm\.(fshl|fshr)\.i(\d+)', name)
        if m:
            n = int(m.group(2))
            setd(rty, 'IR_%s%d(%s, %s, %s)' % (m.group(1).upper(), n, A[0], A[1], A[2])); return out
        m = re.match(r'llvm\.(ctlz|cttz)\.i(\d+)', name)
        if m:
            setd(rty, 'IR_%s%s(%s)' % (m.group(1).upper(), m.group(2), A[0])); return out
        m = re.match(r'llvm\.(ctpop|bswap|abs)\.i(\d+)', name)
        if m:
            setd(rty, 'IR_%s%s(%s)' % (m.group(1).upper(), m.group(2), A[0])); return out
        m = re.match(r'llvm\.(uadd|usub|umul|sadd|ssub|smul)\.with\.overflow\.i(\d+)', name)
        if m:
            cn = declare(dest, rty)
            return ['IR_%s_OV%s(%s, %s, &%s.f0, &%s.f1);' % (m.group(1).upper(), m.group(2), A[0], A[1], cn, cn)]
        m = re.match(r'llvm\.(usub|uadd)\.sat\.i(\d+)', name)
        if m:
            setd(rty, 'IR_%s_SAT%s(%s, %s)' % (m.group(1).upper(), m.group(2), A[0], A[1])); return out
        if name.startswith('llvm.stacksave'):
            setd(rty, '((uint8_t*)0)'); return out
        if name.startswith('llvm.stackrestore'):
            return ['/* stackrestore */;']
        if name.startswith('llvm.prefetch'):
            return ['/* prefetch */;']
        raise NotImplementedError('intrinsic ' + name)

    # ---- globals
    def emit_global_decl(self, name, g):
        cn = self.gname(name)
        ct = self.ctype(g['type'])
        q = ''
        if g['external'] and name != '__dso_handle' and not any(re.search(rx, name) for rx in getattr(self.opts, 'define_external', [])):
            return 'extern %s %s;' % (ct, cn)
        return '%s %s;' % (ct, cn)

    def emit_global_def(self, name, g):
        cn = self.gname(name)
        ct = self.ctype(g['type'])
        if g['external'] or g['init'] is None:
            return None
        init = g['init']
        if init[0] in ('zero', 'undef'):
            return None  # zero-initialised by default (tentative def above)
        return '%s %s = %s;' % (ct, cn, self.cconst(g['type'], init, static=True))

BYTE_COPY_LOOPS = False   # --byte-copy-loops: dynamic-length byte copies become loops too (symex then propagates constant bytes through them; the built-in copy does not)
STR_DISJUNCT = r'''/* std::string::_M_disjunct(s): "s does not point into this string".  The library decides it by ordering two
   possibly unrelated pointers; symex cannot fold that and would fork every append/assign into its aliasing path.
   Distinct objects never overlap, so the answer for them is "disjunct"; inside one object the comparison is exact. */
_Bool vf_str_disjunct(void* self, void* s) {
  const char* d = *(const char* const*)self; uint64_t n = ((const uint64_t*)self)[1];
  if (!__CPROVER_same_object(s, d)) return 1;
  return (const char*)s < d || d + n < (const char*)s;
}
'''
PRELUDE = r'''
#include <stdint.h>
#include <stddef.h>
#include <string.h>
#include <stdlib.h>
#ifdef __CPROVER__
uint8_t nondet_u8(void); uint16_t nondet_u16(void); uint32_t nondet_u32(void); uint64_t nondet_u64(void); _Bool nondet_bool(void);
/* every symbolic input passes through one of these, so that the driver can read
   the input stream of a counterexample from the assignments to vf_nd_value */
/* the always-true assertion keeps every input inside the cone of influence, so that
   --slice-formula cannot drop it from a counterexample trace (the replay stream must be complete) */
#define VF_ND_KEEP(v) __CPROVER_assert(!((v) == 1 && (v) == 2), "VF-KEEP input recorded")
uint8_t vf_nd_u8(void) { uint8_t vf_nd_value = nondet_u8(); VF_ND_KEEP(vf_nd_value); return vf_nd_value; }
uint16_t vf_nd_u16(void) { uint16_t vf_nd_value = nondet_u16(); VF_ND_KEEP(vf_nd_value); return vf_nd_value; }
uint32_t vf_nd_u32(void) { uint32_t vf_nd_value = nondet_u32(); VF_ND_KEEP(vf_nd_value); return vf_nd_value; }
uint64_t vf_nd_u64(void) { uint64_t vf_nd_value = nondet_u64(); VF_ND_KEEP(vf_nd_value); return vf_nd_value; }
_Bool vf_nd_bool(void) { _Bool vf_nd_value = nondet_bool(); VF_ND_KEEP(vf_nd_value); return vf_nd_value; }
void vf_observe(uint64_t x) {}
/* CBMC 6.11's built-in memmove/memcpy with a non-constant length go through array_replace, which
   mis-places the copy on arrays of structs under field sensitivity (observed: vector<KeyID>::erase
   left element 0 unchanged).  These word/byte loops are used instead; their unwinding is bounded by
   --unwindset (VF_COPY_UNWIND) and checked by unwinding assertions. */
void* vf_memcpy(void* d, const void* s, size_t n) {
  for (size_t i = 0; i < n; i++) ((uint8_t*)d)[i] = ((const uint8_t*)s)[i];
  return d;
}
void* vf_memmove(void* d, const void* s, size_t n) {
  if (__CPROVER_POINTER_OBJECT(d) == __CPROVER_POINTER_OBJECT(s) && __CPROVER_POINTER_OFFSET(d) > __CPROVER_POINTER_OFFSET(s)) { for (size_t i = n; i > 0; i--) ((uint8_t*)d)[i - 1] = ((const uint8_t*)s)[i - 1]; }
  else { for (size_t i = 0; i < n; i++) ((uint8_t*)d)[i] = ((const uint8_t*)s)[i]; }
  return d;
}
#define VF_TYPED_MOVE(T, D, S, N) do { if ((size_t)(N) % sizeof(T) != 0) { vf_memmove((D), (S), (N)); break; } /* not a whole number of elements: the cast-from type is not the element type */ \
  T* d_ = (T*)(D); const T* s_ = (const T*)(S); size_t k_ = (size_t)(N) / sizeof(T); \
  if (__CPROVER_POINTER_OBJECT(d_) == __CPROVER_POINTER_OBJECT(s_) && __CPROVER_POINTER_OFFSET(d_) > __CPROVER_POINTER_OFFSET(s_)) { for (size_t i_ = k_; i_ > 0; i_--) d_[i_ - 1] = s_[i_ - 1]; } \
  else { for (size_t i_ = 0; i_ < k_; i_++) d_[i_] = s_[i_]; } } while (0)
void* memchr(const void* s, int c, size_t n) { const unsigned char* p = (const unsigned char*)s; for (size_t i = 0; i < n; i++) if (p[i] == (unsigned char)c) return (void*)(p + i); return 0; }
#else
#define vf_nd_u8 nondet_u8
#define vf_nd_u16 nondet_u16
#define vf_nd_u32 nondet_u32
#define vf_nd_u64 nondet_u64
#define vf_nd_bool nondet_bool
#define vf_memcpy memcpy
#define vf_memmove memmove
#define VF_TYPED_MOVE(T, D, S, N) memmove((D), (S), (N))
#endif
int isspace(int c) { return c == ' ' || (c >= 9 && c <= 13); }
int bcmp(const void* a, const void* b, size_t n) { return memcmp(a, b, n) != 0; }
#ifndef IR_UNREACHABLE
#define IR_UNREACHABLE() do { __CPROVER_assert(0, "IR unreachable reached"); __CPROVER_assume(0); } while (0)
#endif
#ifndef IR_TRAP
#define IR_TRAP() do { __CPROVER_assert(0, "IR trap reached"); __CPROVER_assume(0); } while (0)
#endif
void vf_virtual_dtor_stub(void* p) { __CPROVER_assert(0, "virtual destructor or out-of-scope virtual function invoked (harnesses must not destroy polymorphic objects)"); __CPROVER_assume(0); }
static inline void* vf_nonnull(void* p) { __CPROVER_assume(p != 0); return p; }
#define VF_TYPED_ALLOC(T, k) vf_nonnull(malloc(sizeof(T) * (k)))
#define VF_BYTES_ALLOC(n) vf_nonnull(malloc(n))
static void* vf_alloc(uint64_t n);   /* size-class allocator, models/cxx.c */
#define VF_BYTES_ALLOC_N(n) vf_alloc(n)
#ifndef VF_CAP
#define VF_CAP 8
#endif
#define VF_TYPED_ALLOC_N(T, bytes) ({ __CPROVER_assert((bytes) <= sizeof(T) * VF_CAP, "model: dynamic array larger than VF_CAP elements (outside bound)"); __CPROVER_assume((bytes) <= sizeof(T) * VF_CAP); vf_nonnull(malloc(sizeof(T) * VF_CAP)); })
#define BITCAST(DT, ST, e) ({ ST _s = (e); DT _d; memcpy(&_d, &_s, sizeof(_d)); _d; })
static inline uint64_t IR_FSHL64(uint64_t a, uint64_t b, uint64_t s) { s &= 63; return s ? (a << s) | (b >> (64 - s)) : a; }
static inline uint64_t IR_FSHR64(uint64_t a, uint64_t b, uint64_t s) { s &= 63; return s ? (a << (64 - s)) | (b >> s) : b; }
static inline uint32_t IR_FSHL32(uint32_t a, uint32_t b, uint32_t s) { s &= 31; return s ? (a << s) | (b >> (32 - s)) : a; }
static inline uint32_t IR_FSHR32(uint32_t a, uint32_t b, uint32_t s) { s &= 31; return s ? (a << (32 - s)) | (b >> s) : b; }
static inline uint64_t IR_CTLZ64(uint64_t x) { uint64_t n = 0; if (!x) return 64; while (!(x >> 63)) { x <<= 1; n++; } return n; }
static inline uint32_t IR_CTLZ32(uint32_t x) { uint32_t n = 0; if (!x) return 32; while (!(x >> 31)) { x <<= 1; n++; } return n; }
static inline uint64_t IR_CTTZ64(uint64_t x) { uint64_t n = 0; if (!x) return 64; while (!(x & 1)) { x >>= 1; n++; } return n; }
static inline uint32_t IR_CTTZ32(uint32_t x) { uint32_t n = 0; if (!x) return 32; while (!(x & 1)) { x >>= 1; n++; } return n; }
static inline uint64_t IR_BSWAP64(uint64_t x) { return __builtin_bswap64(x); }
static inline uint32_t IR_BSWAP32(uint32_t x) { return __builtin_bswap32(x); }
static inline void IR_UMUL_OV64(uint64_t a, uint64_t b, uint64_t* r, _Bool* o) { unsigned __int128 p = (unsigned __int128)a * b; *r = (uint64_t)p; *o = (p >> 64) != 0; }
static inline void IR_UADD_OV64(uint64_t a, uint64_t b, uint64_t* r, _Bool* o) { *r = a + b; *o = *r < a; }
static inline void IR_USUB_OV64(uint64_t a, uint64_t b, uint64_t* r, _Bool* o) { *r = a - b; *o = a < b; }
static inline uint64_t IR_USUB_SAT64(uint64_t a, uint64_t b) { return a > b ? a - b : 0; }
static inline uint32_t IR_ABS32(uint32_t x) { return (x >> 31) ? (uint32_t)(0u - x) : x; }
static inline uint64_t IR_ABS64(uint64_t x) { return (x >> 63) ? (uint64_t)(0ull - x) : x; }
static inline uint32_t IR_CTPOP32(uint32_t x) { uint32_t n = 0; for (int i = 0; i < 32; i++) n += (x >> i) & 1; return n; }
static inline uint64_t IR_CTPOP64(uint64_t x) { uint64_t n = 0; for (int i = 0; i < 64; i++) n += (x >> i) & 1; return n; }
'''

def reachable(m, roots, stubs):
    seen = set(); work = list(roots)
    gseen = set()
    ref_re = re.compile(r'@(?:"(?:[^"\\]|\\.)*"|[-a-zA-Z$._0-9]+)')
    def refs_in_const(v, acc):
        if not isinstance(v, tuple): return
        if v and v[0] == 'global': acc.add(v[1])
        for x in v:
            if isinstance(x, tuple): refs_in_const(x, acc)
            elif isinstance(x, list):
                for y in x: refs_in_const(y, acc)
    while work:
        n = work.pop()
        if n in m.aliases:
            at, av = m.aliases[n]
            acc = set(); refs_in_const(av, acc)
            work.extend(acc)
            continue
        if n in m.funcs:
            if n in seen: continue
            seen.add(n)
            if n in stubs: continue
            f = m.funcs[n]
            for b, insts in f.blocks.items():
                for s in insts:
                    for r in ref_re.findall(s):
                        work.append(unq(r))
        elif n in m.globals:
            if n in gseen: continue
            gseen.add(n)
            acc = set(); refs_in_const(m.globals[n]['init'], acc)
            work.extend(acc)
    return seen, gseen

def main():
    ap = argparse.ArgumentParser()
    ap.add_argument('input'); ap.add_argument('-o', '--output', required=True)
    ap.add_argument('--root', action='append', default=[])
    ap.add_argument('--stub', action='append', default=[], help='mangled=cname : replace calls/body')
    ap.add_argument('--ctors', action='store_true')
    ap.add_argument('--models', action='append', default=[])
    ap.add_argument('--stub-virtual-dtors', action='store_true')
    ap.add_argument('--stub-virtual', action='append', default=[], help='regex: vtable entries whose mangled name matches are replaced by an asserting stub')
    ap.add_argument('--define-external', action='append', default=[], help='regex: external globals matching get a zero-initialised definition')
    ap.add_argument('--byte-copy-loops', action='store_true')
    ap.add_argument('--assert-external', action='append', default=[], help='regex: external functions matching get a body that asserts it is never called')
    ap.add_argument('--list', help='write the mangled names of all translated function bodies here')
    a = ap.parse_args()
    global BYTE_COPY_LOOPS
    BYTE_COPY_LOOPS = a.byte_copy_loops
    m = parse_module(open(a.input).read())
    class O: pass
    opts = O(); opts.stubs = dict(x.split('=', 1) for x in a.stub); opts.roots = set(a.root)
    if a.stub_virtual_dtors:
        dtor_re = re.compile(r'D[012]Ev$')
        sv_res = [re.compile(x) for x in a.stub_virtual]
        def scrub(v):
            if isinstance(v, tuple):
                if len(v) == 2 and v[0] == 'global' and isinstance(v[1], str) and dtor_re.search(v[1]) and v[1] in m.funcs:
                    return ('global', 'vf_virtual_dtor_stub')
                if len(v) == 2 and v[0] == 'global' and isinstance(v[1], str) and v[1] in m.funcs and any(r.search(v[1]) for r in sv_res):
                    return ('global', 'vf_virtual_dtor_stub')
                return tuple(scrub(x) for x in v)
            if isinstance(v, list):
                return [scrub(x) for x in v]
            return v
        for gn, g in m.globals.items():
            if gn.startswith('_ZTV') and g['init'] is not None:
                g['init'] = scrub(g['init'])
        fstub = Func(); fstub.name = 'vf_virtual_dtor_stub'; fstub.ret = VOID; fstub.params = [(('ptr', ('int', 8)), 'p')]
        m.funcs['vf_virtual_dtor_stub'] = fstub
    model_text = ''.join(open(mf).read() for mf in a.models)
    model_names = set(re.findall(r'\bM_([A-Za-z0-9_]+)\s*[()]', model_text))
    opts.define_external = a.define_external
    opts.modelled = set(n for n, f in m.funcs.items() if f.is_decl and cid(n) in model_names)
    em = Emitter(m, opts)
    roots = list(a.root)
    ctor_fns = []
    if a.ctors and 'llvm.global_ctors' in m.globals:
        init = m.globals['llvm.global_ctors']['init']
        if init and init[0] == 'agg':
            for et, ev in init[1]:
                fnv = ev[1][1][1]
                if fnv[0] == 'global': ctor_fns.append(fnv[1])
        roots.extend(ctor_fns)
    fseen, gseen = reachable(m, roots, opts.stubs)
    gseen.discard('llvm.global_ctors'); gseen.discard('llvm.used'); gseen.discard('llvm.compiler.used')
    protos = []; bodies = []
    missing = []
    for n in m.funcs:
        if n not in fseen: continue
        f = m.funcs[n]
        if n.startswith('llvm.'): continue
        if n.startswith('__CPROVER_') or n in LIBC_BUILTIN: continue
        if n in opts.stubs and opts.stubs[n] in m.funcs and not m.funcs[opts.stubs[n]].is_decl:
            continue
        if f.is_decl or n in opts.stubs:
            def gen(t):
                rt = em.resolve(t) if t[0] == 'named' else t
                return 'void*' if rt[0] == 'ptr' else em.ctype(t)
            ps = [gen(pt) for pt, _ in f.params]
            if f.vararg: ps.append('...')
            if not ps: ps = ['void']
            protos.append('%s %s(%s);' % (gen(f.ret), em.gname(n), ', '.join(ps)))
            if f.is_decl and n not in opts.modelled and not n.startswith(PASSTHRU) and not n.startswith('nondet_') and n not in LIBC_BUILTIN and n not in ('memcpy', 'memmove') and any(re.search(rx, n) for rx in a.assert_external):
                named = ', '.join(('...' if p_ == '...' else '%s a%d' % (p_, k_)) for k_, p_ in enumerate(ps)) if ps != ['void'] else 'void'
                rt_ = gen(f.ret)
                retst = '' if rt_ == 'void' else (' return (%s)0;' % rt_ if (rt_.endswith('*') or rt_.startswith('uint') or rt_ == '_Bool') else ' { %s z_ = {0}; return z_; }' % rt_)
                msg = re.sub(r'[^A-Za-z0-9_]', '_', n)[:80]
                bodies.append('%s %s(%s) { __CPROVER_assert(0, "harness: unexpected call of %s"); __CPROVER_assume(0);%s }' % (rt_, em.gname(n), named, msg, retst))
                continue
            if f.is_decl and not n.startswith(PASSTHRU) and n not in opts.modelled: missing.append(n)
            continue
            ps = [em.ctype(pt) for pt, _ in f.params]
            if f.vararg: ps.append('...')
            if not ps: ps = ['void']
            protos.append('%s %s(%s);' % (em.ctype(f.ret), em.gname(n), ', '.join(ps)))
            if f.is_decl and not n.startswith(PASSTHRU): missing.append(n)
            continue
        hdr, body = em.emit_function(f)
        protos.append(hdr + ';')
        bodies.append(body)
    gdecl = []; gdef = []
    for n in m.globals:
        if n not in gseen: continue
        g = m.globals[n]
        gdecl.append(em.emit_global_decl(n, g))
    for n in m.globals:
        if n not in gseen: continue
        d = em.emit_global_def(n, m.globals[n])
        if d: gdef.append(d)
    while em.deferred:
        em.need_struct(em.deferred.pop())
    with open(a.output, 'w') as fo:
        if BYTE_COPY_LOOPS: fo.write('#define VF_BYTE_COPY_LOOPS 1\n')
        fo.write(PRELUDE)
        fo.write('\n/* types */\n')
        fo.write('\n'.join(t for t in em.typedefs if t))
        fo.write('\n/* globals */\n' + '\n'.join(gdecl))
        fo.write('\n/* prototypes */\n' + '\n'.join(protos))
        fo.write('\n/* global inits */\n' + '\n'.join(gdef))
        if a.ctors:
            fo.write('\nvoid ir2c_run_ctors(void) { %s }\n' % ' '.join('%s();' % em.gname(x) for x in ctor_fns))
            fo.write('void vf_main(void) { ir2c_run_ctors(); %s(); }\n' % a.root[0])
            fo.write('#ifdef VF_NATIVE_MAIN\nint main(void) { vf_main(); return 0; }\n#endif\n')
        fo.write('\n/* functions */\n' + '\n\n'.join(bodies) + '\n')
        for n in m.funcs:
            if n in fseen and n in opts.modelled: fo.write('#define VF_HAVE_%s 1\n' % cid(n))
        if 'vf_str_disjunct' in fseen: fo.write('#ifdef __CPROVER__\n' + STR_DISJUNCT + '#endif\n')
        for mf in a.models:
            fo.write('\n/* models: %s */\n' % mf + open(mf).read())
    if a.list:
        with open(a.list, 'w') as fl:
            for n in m.funcs:
                if n in fseen and not m.funcs[n].is_decl and n not in opts.stubs: fl.write(n + '\n')
            extg = [n for n in m.globals if n in gseen and m.globals[n]['external'] and n != '__dso_handle']
            fl.write('#external ' + ' '.join(missing + extg) + '\n')
    sys.stderr.write('ir2c: %d functions, %d globals; external (need models): %s\n' % (len(bodies), len(gdecl), ' '.join(missing)))

if __name__ == '__main__':
    main()
