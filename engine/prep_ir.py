#!/usr/bin/env python3
"""IR text edits applied to the linked, not-yet-optimised module.

  prep_ir.py in.ll out.ll [--noinline REGEX]... [--stub REGEX=cname]...

--noinline REGEX   every defined function whose mangled name matches is marked
                   noinline, so that `opt -O1` keeps it as a call with its
                   source-level signature (the unit under test stays a unit).
--stub REGEX=cname the (single) function matching REGEX - a definition in the
                   repository code or an external declaration such as
                   pthread_mutex_lock - gets its body replaced by a forwarding
                   call to the harness function `cname` (an extern "C"
                   definition in the same module).  Both the CBMC encoding and
                   the native replay build are produced from the edited module,
                   so they see the same contract stub.

Prints one line per edit on stderr: "prep_ir: noinline <name>" /
"prep_ir: stub <name> -> <cname>".  A --stub that matches no function, or more
than one, is an error (exit 3): the check is then inconclusive, never silent.
"""
import re, sys, os
sys.path.insert(0, os.path.dirname(os.path.abspath(__file__)))
import ir2c

def tstr(t):
    k = t[0]
    if k == 'int': return 'i%d' % t[1]
    if k == 'void': return 'void'
    if k == 'float': return 'float'
    if k == 'double': return 'double'
    if k == 'fp80': return 'x86_fp80'
    if k == 'ptr': return tstr(t[1]) + '*'
    if k == 'named':
        n = t[1]
        return '%' + (n if re.fullmatch(r'[-a-zA-Z$._0-9]+', n) else '"%s"' % n)
    if k == 'arr': return '[%d x %s]' % (t[1], tstr(t[2]))
    if k == 'vec': return '<%d x %s>' % (t[1], tstr(t[2]))
    if k == 'struct':
        body = '{ %s }' % ', '.join(tstr(x) for x in t[1]) if t[1] else '{}'
        return '<%s>' % body if t[2] else body
    if k == 'func':
        ps = [tstr(p) for p in t[2]]
        if t[3]: ps.append('...')
        return '%s (%s)' % (tstr(t[1]), ', '.join(ps))
    raise NotImplementedError(repr(t))

def fname(line):
    m = re.search(r'@("(?:[^"\\]|\\.)*"|[-a-zA-Z$._0-9]+)\(', line)
    return m.group(1).strip('"') if m else None

def main():
    args = sys.argv[1:]
    src, dst = args[0], args[1]
    noinl, stubs = [], []
    svirt, nvirt = [], []
    i = 2
    while i < len(args):
        if args[i] == '--noinline': noinl.append(re.compile(args[i + 1])); i += 2
        elif args[i] == '--stub-virtual': svirt.append(re.compile(args[i + 1])); i += 2
        elif args[i] == '--noop-virtual': nvirt.append(re.compile(args[i + 1])); i += 2
        elif args[i] == '--stub':
            r, c = args[i + 1].rsplit('=', 1); stubs.append((re.compile(r), c, args[i + 1])); i += 2
        else: sys.exit('prep_ir: bad argument ' + args[i])
    lines = open(src).read().split('\n')
    # index function headers
    defs = {}; decls = {}
    for idx, ln in enumerate(lines):
        if ln.startswith('define '):
            n = fname(ln)
            if n: defs[n] = idx
        elif ln.startswith('declare '):
            n = fname(ln)
            if n: decls[n] = idx
    out_edits = {}
    drop = set()
    for rx, cname, spec in stubs:
        if cname not in defs:
            sys.stderr.write('prep_ir: stub target %s is not defined in the module\n' % cname); sys.exit(3)
        cands = [n for n in list(defs) + list(decls) if rx.search(n) and n != cname]
        if len(cands) != 1:
            sys.stderr.write('prep_ir: stub %s matches %d functions: %s\n' % (spec, len(cands), ' '.join(cands[:6]))); sys.exit(3)
        n = cands[0]
        is_def = n in defs
        idx = defs[n] if is_def else decls[n]
        hdr = lines[idx]
        f = ir2c.parse_func_header(ir2c.strip_meta(hdr[len('define ' if is_def else 'declare '):].rstrip().rstrip('{')))
        tf = ir2c.parse_func_header(ir2c.strip_meta(lines[defs[cname]][len('define '):].rstrip().rstrip('{')))
        if len(tf.params) != len(f.params):
            sys.stderr.write('prep_ir: stub %s: arity mismatch (%d vs %d)\n' % (spec, len(f.params), len(tf.params))); sys.exit(3)
        ptys = [tstr(pt) for pt, _ in f.params]
        fty = '%s (%s)' % (tstr(f.ret), ', '.join(ptys + (['...'] if f.vararg else [])))
        tty = '%s (%s)' % (tstr(tf.ret), ', '.join(tstr(pt) for pt, _ in tf.params))
        qn = '@' + (n if re.fullmatch(r'[-a-zA-Z$._0-9]+', n) else '"%s"' % n)
        def abi_attr(k):
            # byval/sret change how the argument is passed: the forwarder must keep them
            toks = getattr(f, 'pattrs', {}).get(k, [])
            out = []
            for j, (kk, vv) in enumerate(toks):
                if vv in ('byval', 'sret'):
                    pt = f.params[k][0]
                    out.append('%s(%s)' % (vv, tstr(pt[1])))
            return (' ' + ' '.join(out)) if out else ''
        params = ', '.join('%s%s %%a%d' % (t, abi_attr(k), k) for k, t in enumerate(ptys))
        if f.vararg: params += ', ...'
        def call_attr(k):
            # the stub itself may take the argument byval (same C++ type as the original): the call site must say so
            toks = getattr(tf, 'pattrs', {}).get(k, [])
            out = ['%s(%s)' % (vv, tstr(f.params[k][0][1])) for (kk, vv) in toks if vv == 'byval' and f.params[k][0][0] == 'ptr']
            return (' ' + ' '.join(out)) if out else ''
        callargs = ', '.join('%s%s %%a%d' % (t, call_attr(k), k) for k, t in enumerate(ptys))
        body = ['define internal %s %s(%s) noinline {' % (tstr(f.ret), qn, params)]
        callee = '@%s' % cname if fty == tty else 'bitcast (%s* @%s to %s*)' % (tty, cname, fty)
        if f.ret == ir2c.VOID:
            body += ['  call %s %s(%s)' % (fty if f.vararg else 'void', callee, callargs), '  ret void']
        else:
            body += ['  %%r = call %s %s(%s)' % (tstr(f.ret), callee, callargs), '  ret %s %%r' % tstr(f.ret)]
        body.append('}')
        if is_def:
            j = idx
            while lines[j].strip() != '}': drop.add(j); j += 1
            drop.add(j)
        else:
            drop.add(idx)
        out_edits[idx] = body
        sys.stderr.write('prep_ir: stub %s -> %s\n' % (n, cname))
    # std::string::_M_disjunct -> runtime primitive vf_str_disjunct (see ir2c.py prelude)
    DISJ = '_ZNKSt7__cxx1112basic_stringIcSt11char_traitsIcESaIcEE11_M_disjunctEPKc'
    if DISJ in defs:
        idx = defs[DISJ]; f = ir2c.parse_func_header(ir2c.strip_meta(lines[idx][len('define '):].rstrip().rstrip('{')))
        ptys = [tstr(pt) for pt, _ in f.params]
        j = idx
        while lines[j].strip() != '}': drop.add(j); j += 1
        drop.add(j)
        out_edits[idx] = ['define internal zeroext i1 @%s(%s %%a0, %s %%a1) noinline {' % (DISJ, ptys[0], ptys[1]),
                          '  %%p0 = bitcast %s %%a0 to i8*' % ptys[0], '  %r = call zeroext i1 @vf_str_disjunct(i8* %p0, i8* %a1)', '  ret i1 %r', '}',
                          'declare zeroext i1 @vf_str_disjunct(i8*, i8*)']
        sys.stderr.write('prep_ir: builtin %s -> vf_str_disjunct\n' % DISJ)
    # state havoc: a harness may declare `extern "C" void vf_havoc_scalars_<Class>(void*)`.  It is DEFINED here, from the class's
    # LLVM struct type: every integer member declared directly in the class (not inside a member object, not a pointer) is given an
    # arbitrary value (i8 members: 0/1, they are bools in this code base).  The harness then re-establishes the members it knows; what is
    # left arbitrary are exactly the members it does not know about - counters and mode flags a later change may add - so that ONE step of
    # the class from "any state such a member can be in" is decided (inductive-step reading).  Produced at IR level, so the CBMC encoding
    # and the native replay share it.
    for n, idx in list(decls.items()):
        mh = re.fullmatch(r'vf_havoc_scalars_(\w+)', n)
        if not mh: continue
        tag = mh.group(1)
        cands = [ln for ln in lines if re.match(r'%"?(?:class|struct)\.(?:[^"=]*[:.])?' + tag + r'"? = type <?\{', ln)]
        if len(cands) != 1:
            sys.stderr.write('prep_ir: havoc %s matches %d struct types\n' % (tag, len(cands))); sys.exit(3)
        tname, body = cands[0].split(' = type ', 1)
        body = body.strip(); body = body[body.index('{') + 1: body.rindex('}')]
        fields = []; depth = 0; cur = ''
        for ch in body:
            if ch in '{[<(': depth += 1
            elif ch in '}]>)': depth -= 1
            if ch == ',' and depth == 0: fields.append(cur.strip()); cur = ''
            else: cur += ch
        if cur.strip(): fields.append(cur.strip())
        fn = ['define void @%s(i8* %%a0) noinline {' % n, '  %%o = bitcast i8* %%a0 to %s*' % tname]
        nd = {'i8': 'nondet_u8', 'i32': 'nondet_u32', 'i64': 'nondet_u64'}
        hav = []
        for k, ft in enumerate(fields):
            if ft not in nd: continue
            fn.append('  %%p%d = getelementptr inbounds %s, %s* %%o, i32 0, i32 %d' % (k, tname, tname, k))
            fn.append('  %%v%d = call %s @%s()' % (k, ft, nd[ft]))
            if ft == 'i8':
                fn.append('  %%w%d = and i8 %%v%d, 1' % (k, k)); fn.append('  store i8 %%w%d, i8* %%p%d' % (k, k))
            else:
                fn.append('  store %s %%v%d, %s* %%p%d' % (ft, k, ft, k))
            hav.append('%d:%s' % (k, ft))
        fn += ['  ret void', '}']
        for ft, f in nd.items():
            if f not in decls and f not in defs and any(h.endswith(':' + ft) for h in hav): fn.append('declare %s @%s()' % (ft, f)); decls[f] = -1
        drop.add(idx); out_edits[idx] = fn
        sys.stderr.write('prep_ir: havoc %s fields %s of %s\n' % (n, ' '.join(hav), tname))
    # vtable scrub: destructor entries and out-of-scope virtual functions are replaced by
    # vf_virtual_stub (asserts) or vf_virtual_noop, so that neither CBMC's function-pointer
    # resolution nor the native link drags in code the obligation never runs
    dtor_re = re.compile(r'D[012]Ev$')
    for idx, ln in enumerate(lines):
        if not (ln.startswith('@_ZTV') or ln.startswith('@"_ZTV')): continue
        out = []; pos = 0; key = 'i8* bitcast ('
        while True:
            k = ln.find(key, pos)
            if k < 0: out.append(ln[pos:]); break
            depth = 0; q = k + len(key) - 1
            while True:
                if ln[q] == '(': depth += 1
                elif ln[q] == ')':
                    depth -= 1
                    if depth == 0: break
                q += 1
            elem = ln[k:q + 1]
            mm = re.search(r'@("(?:[^"\\]|\\.)*"|[-a-zA-Z$._0-9]+) to i8\*\)$', elem)
            rep = elem
            if mm:
                n = mm.group(1).strip('"')
                if any(r.search(n) for r in nvirt): rep = 'i8* bitcast (void (i8*)* @vf_virtual_noop to i8*)'
                elif dtor_re.search(n) or any(r.search(n) for r in svirt): rep = 'i8* bitcast (void (i8*)* @vf_virtual_stub to i8*)'
                if rep != elem: sys.stderr.write('prep_ir: virtual %s -> %s\n' % (n, 'noop' if 'noop' in rep else 'stub'))
            out.append(ln[pos:k]); out.append(rep); pos = q + 1
        lines[idx] = ''.join(out)
    res = []
    for idx, ln in enumerate(lines):
        if idx in out_edits: res.extend(out_edits[idx])
        if idx in drop: continue
        if ln.startswith('define ') and noinl:
            n = fname(ln)
            if n and any(p.search(n) for p in noinl) and ln.rstrip().endswith('{'):
                ln = ln.replace(' alwaysinline', '').replace(' inlinehint', '')
                if ' noinline' not in ln:
                    # function attributes follow the parameter list (after an optional
                    # unnamed_addr) and precede section/comdat/align
                    at = ln.index('@' + n if ('@' + n + '(') in ln else '@"' + n + '"')
                    p = ln.index('(', at); depth = 0; q = p
                    while True:
                        if ln[q] == '(': depth += 1
                        elif ln[q] == ')':
                            depth -= 1
                            if depth == 0: break
                        q += 1
                    tail = ln[q + 1:]
                    mm = re.match(r'(\s+(?:local_)?unnamed_addr)?', tail)
                    k = q + 1 + mm.end()
                    ln = ln[:k] + ' noinline' + ln[k:]
                sys.stderr.write('prep_ir: noinline %s\n' % n)
        res.append(ln)
    open(dst, 'w').write('\n'.join(res))

if __name__ == '__main__':
    main()
