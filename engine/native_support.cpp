// Native-replay only: fatal-error entry points of lib/llvm/Support that the
// SmallVector growth path refers to (the checks never reach them within bounds).
#include <cstdlib>
#include <cstdio>
#include <string>
namespace llvm {
class Twine; class StringRef;
void report_bad_alloc_error(const char* reason, bool) { fprintf(stderr, "report_bad_alloc_error: %s\n", reason); abort(); }
void report_fatal_error(const char* reason, bool) { fprintf(stderr, "report_fatal_error: %s\n", reason); abort(); }
void report_fatal_error(const std::string& reason, bool) { fprintf(stderr, "report_fatal_error: %s\n", reason.c_str()); abort(); }
}
