#!/bin/sh
# with_patch.sh <patch.diff> <check args...>: apply a seeded change to /repo, run the check, undo it.
P=$(realpath "$1"); shift
git -C /repo apply "$P" || exit 9
cd "$(dirname "$0")/.." && ./check "$@" --no-evidence; rc=$?
git -C /repo checkout -- . 
exit $rc
