#!/bin/sh
# symex_profile.sh <workdir> [seconds]: rerun the query's cbmc with verbosity 9 and report where symex time goes
# (largest gaps between consecutive progress lines, with the loop / function names around them)
D=$1; T=${2:-120}
cd $D && timeout $T $(cat cbmc.cmd | sed 's/--trace --json-ui --verbosity 8/--verbosity 9/; s/--sat-solver cadical//') 2>&1 | python3 -c "
import sys,time
t0=time.time(); last=t0; rows=[]
for ln in sys.stdin:
    now=time.time(); rows.append((now-last, now-t0, ln.strip()[:170])); last=now
rows_sorted=sorted(range(len(rows)), key=lambda i:-rows[i][0])[:12]
for i in sorted(rows_sorted):
    print('%.1fs gap at %.0fs before: %s' % (rows[i][0], rows[i][1], rows[i][2]))
    if i>0: print('      after: %s' % rows[i-1][2])
print('lines', len(rows))
"
