#!/bin/sh
# confirm_seed.sh <seed-id> <src-dir with patch.diff, build_demo.sh, demo files>
# Independently confirms a seeded change in a scratch worktree of /repo:
#   (1) demo passes on the unchanged tree, (2) with the patch the tree compiles and the
#   pinned unit-test binaries pass, (3) the demo fails.  Copies the seed into /verif/seeded/<id>/.
ID=$1; SRC=$(realpath "$2"); V=$(cd "$(dirname "$0")/.." && pwd)
WT=/tmp/cs/$ID; rm -rf $WT; mkdir -p /tmp/cs
git -C /repo worktree add -q --detach $WT HEAD || exit 9
OUT=$V/seeded/$ID; mkdir -p $OUT; cp -r $SRC/. $OUT/; rm -f $OUT/FOREIGN* 
LOG=$OUT/confirm.log; : > $LOG
cd $WT
cfg() { cmake -G Ninja -B _build -DCMAKE_BUILD_TYPE=RelWithDebInfo -DCMAKE_C_COMPILER=/usr/bin/clang-16 -DCMAKE_CXX_COMPILER=/usr/bin/clang++-16 -DCMAKE_CXX_FLAGS=-Wno-error -DCMAKE_C_FLAGS=-Wno-error >/dev/null 2>&1 && cmake --build _build >/dev/null 2>&1; }
cfg || { echo "BUILD-FAILED unchanged" >> $LOG; }
( cd $OUT && timeout 600 sh ./build_demo.sh $WT ) > $OUT/demo_without.txt 2>&1; RC0=$?
echo "demo on unchanged tree: exit $RC0" >> $LOG
git apply $OUT/patch.diff || { echo "PATCH-DOES-NOT-APPLY" >> $LOG; }
cfg; echo "build with patch: exit $?" >> $LOG
T=0; N=0; for t in _build/bin/*Tests; do timeout 900 $t > /tmp/cs/$ID.test.log 2>&1 || T=1; N=$((N + $(grep -c "^\[       OK \]" /tmp/cs/$ID.test.log))); done
echo "unit tests with patch: failed=$T passed_cases=$N" >> $LOG
( cd $OUT && timeout 600 sh ./build_demo.sh $WT ) > $OUT/demo_with.txt 2>&1; RC1=$?
echo "demo with patch: exit $RC1" >> $LOG
if [ $RC0 -eq 0 ] && [ $RC1 -ne 0 ] && [ $T -eq 0 ]; then echo "CONFIRMED" >> $LOG; else echo "NOT-CONFIRMED" >> $LOG; fi
cd /; git -C /repo worktree remove --force $WT; rm -f /tmp/cs/$ID.test.log
cat $LOG
