#!/usr/bin/env python3
"""Regenerate MANIFEST.json from obligations/*.py (claimed properties) and NOT_APPLICABLE below."""
import json, os, sys, importlib.util, glob
V = os.path.dirname(os.path.dirname(os.path.abspath(__file__)))
NOT_APPLICABLE = {
    'C16': 'every clause quantifies over lane-thread interleavings, child-process behaviour, pipe buffering and signals (thread pool over a condition variable, posix_spawn/poll/wait4): no bounded sequential computation decides it; concurrency and code behind FFI/I-O are outside what CBMC over translated IR can encode here (DESIGN.md section 3, C16)',
}
PENDING = 'harnesses for this property are not built yet (work in progress); not claimed until its check exists'
sys.path.insert(0, os.path.join(V, 'obligations'))
ids = [json.loads(l)['id'] for l in open(os.path.join(V, 'properties.jsonl'))]
checks = []; na = []
for pid in ids:
    p = os.path.join(V, 'obligations', pid + '.py')
    spec = None
    if os.path.exists(p):
        sp = importlib.util.spec_from_file_location('o' + pid, p); spec = importlib.util.module_from_spec(sp); sp.loader.exec_module(spec)
    if spec is not None and spec.PROPERTY.get('claim', True):
        P = spec.PROPERTY
        checks.append(dict(property_id=pid, quick_cmd='./check %s --tier quick' % pid, thorough_cmd=('VF_JOBS=%d ' % P['jobs_thorough'] if P.get('jobs_thorough') else '') + './check %s --tier thorough' % pid,
                           evidence_file='evidence/%s.json' % pid, replay_cmd_template='./check %s --replay {path}' % pid, engine='ir2c-cbmc',
                           level_claimed=dict(category=P.get('level', 'model_checking'), text=P['level_text'], design_ref=P.get('design_ref', 'DESIGN.md section 3, ' + pid)),
                           level_note=P['level_note'],
                           technique='bounded symbolic execution (CBMC 6.11, SAT) of the clang-14 LLVM IR of the real functions translated to C; counterexamples replayed natively'))
    else:
        na.append(dict(property_id=pid, reason=NOT_APPLICABLE.get(pid) or (spec.PROPERTY.get('na_reason') if spec else None) or PENDING))
m = dict(version=1,
         setup_cmd='python3 engine/selftest.py',
         hooks=dict(guard='LLBUILD_VERIF', enable='checks compile the repository sources with -DLLBUILD_VERIF=1 (clang++-14, LLVM IR); no guarded hook exists in the source at present', 
                    baseline_off_cmd='cmake --build /repo/_build && for t in /repo/_build/bin/*Tests; do $t || exit 1; done   # the pinned suite = the 83 gtest cases of the 7 test binaries; LLBUILD_VERIF is never defined by the repository build', source_commits=[], add_only=True),
         engines=[dict(name='ir2c-cbmc', path='engine/', serves_properties=[c['property_id'] for c in checks],
                       kind_free_text='clang++-14 -> LLVM IR of the real translation units -> own IR-to-C translator (engine/ir2c.py) -> CBMC 6.11 bounded symbolic execution; native replay of counterexamples; differential translator validation on every run')],
         checks=checks, not_applicable=na,
         notes='Exit codes of every check: 0 all obligations proved within their bounds and every reachability witness violated; 1 a natively reproduced counterexample (VIOLATION line); 2 INCONCLUSIVE (timeout, tool error, unreproduced counterexample) - never reported as success and never as a violation. Known findings live in known_findings.txt.')
json.dump(m, open(os.path.join(V, 'MANIFEST.json'), 'w'), indent=1)
print('MANIFEST: %d checks, %d not applicable' % (len(checks), len(na)))
