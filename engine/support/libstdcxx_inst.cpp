// Explicit instantiation of std::string's out-of-line members, so that the encoded
// module contains libstdc++'s real code for them (the headers declare them
// `extern template`, which would otherwise leave them as externals needing models).
#include <string>
template class std::basic_string<char>;
