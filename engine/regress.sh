#!/bin/sh
# regress.sh [tier]: every claimed property on the unchanged tree, then every seeded change
# (must be reported) — prints one line per run.  Not part of MANIFEST; a development aid.
cd "$(dirname "$0")/.."
T=${1:-quick}
for p in $(python3 -c "import json;print(' '.join(c['property_id'] for c in json.load(open('MANIFEST.json'))['checks']))"); do
  ./check $p --tier $T > .work/regress.$p.log 2>&1; echo "clean $p exit=$? $(tail -1 .work/regress.$p.log)"
done
for d in seeded/*/; do
  id=$(basename $d); [ -f $d/patch.diff ] || continue
  props=$(python3 -c "import json,sys;print(' '.join(json.load(open('$d/meta.json')).get('checks',[])))" 2>/dev/null)
  for p in $props; do
    engine/with_patch.sh $d/patch.diff $p --tier $T > .work/regress.$id.$p.log 2>&1; echo "seed $id $p exit=$? $(grep -c '^VIOLATION' .work/regress.$id.$p.log) violations"
  done
done
