/* further std::string out-of-line members (libstdc++ SSO layout, see cxx.c) */
uint64_t M__ZNKSt7__cxx1112basic_stringIcSt11char_traitsIcESaIcEE4findEcm(void* self, uint8_t c, uint64_t pos) {
  struct vf_string* s = (struct vf_string*)self;
  for (uint64_t i = pos; i < s->len; i++) if ((uint8_t)s->p[i] == c) return i;
  return (uint64_t)-1;
}
