/* C models of the C++ runtime externals (environment).  A model is named
 * M_<mangled>; ir2c maps an external G_<mangled> onto it only when the module
 * does not define that function itself.  Pointer parameters are void*. */
static void* vf_alloc(uint64_t n) {
  /* sizes are concrete in every harness; size classes keep CBMC objects concrete
     when a size is computed (std::string growth) */
  if (n <= 16) { void* p = malloc(16); __CPROVER_assume(p != 0); return p; }
  if (n <= 32) { void* p = malloc(32); __CPROVER_assume(p != 0); return p; }
  if (n <= 64) { void* p = malloc(64); __CPROVER_assume(p != 0); return p; }
  if (n <= 256) { void* p = malloc(256); __CPROVER_assume(p != 0); return p; }
  if (n <= 1024) { void* p = malloc(1024); __CPROVER_assume(p != 0); return p; }
  if (n <= 4096) { void* p = malloc(4096); __CPROVER_assume(p != 0); return p; }
  __CPROVER_assert(0, "model: allocation larger than 4096 bytes (outside bound)");
  __CPROVER_assume(0);
  return 0;
}
void* M__Znwm(uint64_t n) { return vf_alloc(n); }
void* M__Znam(uint64_t n) { return vf_alloc(n); }
void M__ZdlPv(void* p) { free(p); }
void M__ZdaPv(void* p) { free(p); }
void M__ZdlPvm(void* p, uint64_t n) { free(p); }
uint32_t M___cxa_atexit(void* f, void* a, void* d) { return 0; }
void M___cxa_pure_virtual(void) { __CPROVER_assert(0, "pure virtual call"); __CPROVER_assume(0); }
void M__ZSt28__throw_bad_array_new_lengthv(void) { __CPROVER_assert(0, "model: throw bad_array_new_length (outside bound)"); __CPROVER_assume(0); }
void M__ZSt17__throw_bad_allocv(void) { __CPROVER_assert(0, "model: throw bad_alloc (outside bound)"); __CPROVER_assume(0); }
void M__ZSt20__throw_length_errorPKc(void* m) { __CPROVER_assert(0, "model: throw length_error (outside bound)"); __CPROVER_assume(0); }
void M__ZSt19__throw_logic_errorPKc(void* m) { __CPROVER_assert(0, "throw logic_error"); __CPROVER_assume(0); }
void M__ZSt24__throw_out_of_range_fmtPKcz(void* m, ...) { __CPROVER_assert(0, "throw out_of_range"); __CPROVER_assume(0); }
void M__ZSt20__throw_system_errori(uint32_t e) { __CPROVER_assert(0, "throw system_error"); __CPROVER_assume(0); }
void M__ZSt25__throw_bad_function_callv(void) { __CPROVER_assert(0, "throw bad_function_call"); __CPROVER_assume(0); }
void M__ZN4llvm22report_bad_alloc_errorEPKcb(void* m, _Bool b) { __CPROVER_assert(0, "model: report_bad_alloc_error (outside bound)"); __CPROVER_assume(0); }
void M_abort(void) { __CPROVER_assert(0, "abort() reached"); __CPROVER_assume(0); }
void M___assert_fail(void* a, void* f, uint32_t l, void* fn) { __CPROVER_assert(0, "assert() failed"); __CPROVER_assume(0); }
/* std::string, libstdc++ SSO layout: { char* p; size_t len; union { char local[16]; size_t cap; } } */
struct vf_string { char* p; uint64_t len; union { char local[16]; uint64_t cap; } u; };
void* M__ZNSt7__cxx1112basic_stringIcSt11char_traitsIcESaIcEE9_M_createERmm(void* self, void* cap, uint64_t old) {
  uint64_t* c = (uint64_t*)cap;
  if (*c > old && *c < 2 * old) *c = 2 * old;
  return vf_alloc(*c + 1);
}
void M__ZNSt7__cxx1112basic_stringIcSt11char_traitsIcESaIcEED2Ev(void* self) {
  struct vf_string* s = (struct vf_string*)self;
  if (s->p != s->u.local) free(s->p);
}
void M__ZNSt7__cxx1112basic_stringIcSt11char_traitsIcESaIcEED1Ev(void* self) {
  struct vf_string* s = (struct vf_string*)self;
  if (s->p != s->u.local) free(s->p);
}
void M__ZN4llvm15SmallVectorBase8grow_podEPvmm(void* self, void* firstEl, uint64_t minSize, uint64_t tsize) {
  __CPROVER_assert(0, "model: SmallVector growth beyond inline capacity (outside bound)"); __CPROVER_assume(0);
}
void M__ZNSt8ios_base4InitC1Ev(void* p) {}
void M__ZNSt8ios_base4InitD1Ev(void* p) {}
/* function-local statics: single-threaded guard */
uint32_t M___cxa_guard_acquire(void* g) { return *(uint8_t*)g == 0; }
void M___cxa_guard_release(void* g) { *(uint8_t*)g = 1; }
/* std::string(const char*, const allocator&) */
void M__ZNSt7__cxx1112basic_stringIcSt11char_traitsIcESaIcEEC2EPKcRKS3_(void* self, void* cstr, void* alloc) {
  struct vf_string* s = (struct vf_string*)self;
  uint64_t n = strlen((const char*)cstr);
  if (n <= 15) s->p = s->u.local; else { s->p = (char*)vf_alloc(n + 1); s->u.cap = n; }
#ifdef VF_BYTE_COPY_LOOPS
  for (uint64_t i_ = 0; i_ < n; i_++) s->p[i_] = ((const char*)cstr)[i_];      /* (byte_copy='loop': constant bytes stay constants for symex) */
#else
  memcpy(s->p, cstr, n);
#endif
  s->p[n] = 0; s->len = n;
}
