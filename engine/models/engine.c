/* Environment of lib/Core/BuildEngine.cpp in sequential harnesses. */
uint32_t M_pthread_mutex_lock(void* m) { return 0; }
uint32_t M_pthread_mutex_unlock(void* m) { return 0; }
uint32_t M_pthread_mutex_trylock(void* m) { return 0; }
void M__ZNSt18condition_variableC1Ev(void* c) {}
void M__ZNSt18condition_variableD1Ev(void* c) {}
void M__ZNSt18condition_variable10notify_oneEv(void* c) {}
void M__ZNSt18condition_variable10notify_allEv(void* c) {}
void M__ZNSt18condition_variable4waitERSt11unique_lockISt5mutexE(void* c, void* l) { __CPROVER_assert(0, "condition_variable::wait reached without an environment stub"); __CPROVER_assume(0); }
uint64_t M__ZNSt6chrono3_V212steady_clock3nowEv(void) { return nondet_u64(); }
void M__ZN7llbuild4core15BuildDBDelegateD2Ev(void* d) {}
void M__ZN7llbuild4core16BuildEngineTraceD1Ev(void* t) {}
/* libstdc++ hash-table growth policy: never ask for a rehash (bucket count does not affect map semantics) */
#ifdef VF_HAVE__ZNKSt8__detail20_Prime_rehash_policy14_M_need_rehashEmmm
struct L_u8_u64 M__ZNKSt8__detail20_Prime_rehash_policy14_M_need_rehashEmmm(void* self, uint64_t nb, uint64_t ne, uint64_t ni) {
  struct L_u8_u64 r; r.f0 = 0; r.f1 = 0; return r;
}
#endif
uint64_t M__ZNKSt8__detail20_Prime_rehash_policy11_M_next_bktEm(void* self, uint64_t n) { return n < 2 ? 2 : n; }
uint64_t M__ZSt11_Hash_bytesPKvmm(void* p, uint64_t n, uint64_t seed) { return nondet_u64(); }
/* the key table is not exercised by the function-level harnesses (key ids are given directly) */
uint32_t M__ZN4llvm13StringMapImpl15LookupBucketForENS_9StringRefE(void* m, void* p, uint64_t n) { __CPROVER_assert(0, "harness: StringMap lookup not expected"); __CPROVER_assume(0); return 0; }
uint32_t M__ZN4llvm13StringMapImpl11RehashTableEj(void* m, uint32_t b) { __CPROVER_assert(0, "harness: StringMap rehash not expected"); __CPROVER_assume(0); return 0; }
