#!/usr/bin/env python3
"""setup_cmd: nothing is compiled ahead of time (every check regenerates its encoding from /repo);
this only verifies that the tools the checks need are present."""
import shutil, sys, subprocess
need = ['cbmc', 'clang++-14', 'clang-14', 'opt-14', 'llvm-link-14', 'gcc', 'python3']
missing = [t for t in need if not shutil.which(t)]
if missing: sys.exit('missing tools: ' + ' '.join(missing))
print(subprocess.run(['cbmc', '--version'], capture_output=True, text=True).stdout.strip())
print('setup ok')
